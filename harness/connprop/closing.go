package connprop

// Part "closing": the LAST RELEASE of a connection as a call that takes time,
// with other calls made while it is under way.
//
// Everywhere else in the stepwise parts a release is atomic: it runs to
// quiescence before the next step. Here ClientConn.Close(), which the Manager
// calls at the last release, is made to PARK inside the bubble, without any
// hook in the code under test: the connections of this part are gRPC clients
// whose name resolver and whose transport (a net.Conn over net.Pipe to a gRPC
// server that runs inside the bubble) are harness code, and ClientConn.Close
// waits for resolver.Close() and for the transport's net.Conn.Close(). With a
// gate armed the releasing goroutine stays inside Close until the scenario
// opens the gate; meanwhile the scenario starts further calls, one at a time:
// requests for the address that is being closed and for another one, repeated
// releases, another call of the very done func that is parked, the last release
// of the other address, cancellations.
//
// What such a call does while the Close is parked is not prescribed: it may
// wait (the unchanged Manager keeps its lock during Close, so every call waits
// behind it) or complete at once. The verdicts hold either way:
//   - a connection handed to a request is not SHUTDOWN while that request has
//     not released it (looked at when the request returns inside the window,
//     after the gate opened, and before every later release);
//   - the connection whose last holder released it is SHUTDOWN once that release
//     has returned, whatever was requested meanwhile;
//   - at every quiescent point an address has at most one connection that is
//     not SHUTDOWN, it is the one its holders hold, and none if nobody holds one;
//   - at most one dial per address in flight; no dial for an address nobody asked for;
//   - every call returns once the gate is open; errors are only the requester's own
//     cancelled context or that of a requester it shared the dial with;
//   - afterwards: releases one at a time keep the connection open until the last
//     one, which closes it; every done func again changes nothing; one more
//     request per address dials afresh.
//
// The connectivity state of the connection at the moment of its last release is
// data (IDLE, CONNECTING, TRANSIENT_FAILURE, READY, READY and dropped by the
// server), as is whether the dial function itself returns READY connections (a
// blocking dial).
//
// Quiescence while a Close is parked: goroutines that wait for the Manager's
// lock are blocked on a mutex, which synctest does not regard as durable, so
// synctest.Wait cannot be used. settleModuloLocks looks at the goroutines of
// the process instead (runtime.Stack) and returns when none but the caller is
// running or runnable - a structural observation, not a delay. It only decides
// which interleaving is produced and how it is labelled; no verdict depends on it.

import (
	"context"
	"errors"
	"fmt"
	"net"
	"regexp"
	"runtime"
	"sort"
	"strings"
	"sync"
	"testing"
	"testing/synctest"
	"time"

	"github.com/openconfig/gnmi/connection"
	"github.com/openconfig/gnmi/verifhook"
	"google.golang.org/grpc"
	"google.golang.org/grpc/connectivity"
	"google.golang.org/grpc/credentials/insecure"
	"google.golang.org/grpc/resolver"
	"verif/harness/internal/vstat"
)

// CloseCase is one case of the part.
type CloseCase struct {
	// Names: templates of the spellings of the two addresses (names.go); empty: a0, a1.
	// a0 is the address whose connection is closed in every round, a1 a bystander.
	Names []string `json:"names,omitempty"`
	// Ready: the dial function only returns once the connection is READY (what a
	// blocking dial does); otherwise it returns a lazily connecting client (IDLE).
	Ready bool `json:"ready,omitempty"`
	// By: holders of a1 acquired before the first round.
	By     int          `json:"by,omitempty"`
	Rounds []CloseRound `json:"rounds"`
}

// CloseRound: the connection of a0 gets Holders holders (those left over by the
// previous round count), is brought into State, the gate is armed, the holders
// release one call at a time and the last release is made from 1+LastN
// goroutines. While it is inside Close (or, if nothing parks, after it
// returned) the Ops are made one after the other. Then the gate opens.
type CloseRound struct {
	Holders int `json:"holders"`
	// State: 0 as the dial function left it; 1 Connect() with a transport dialer
	// that refuses (TRANSIENT_FAILURE); 2 that hangs (CONNECTING); 3 that reaches
	// the in-bubble server (READY); 4 READY, then the server drops the transport.
	State int `json:"state,omitempty"`
	// Gate: 0 Close runs through; 1 the transport's net.Conn Close parks (needs a
	// transport, i.e. READY); 2 the name resolver's Close parks (any state but a
	// client that never left idle mode).
	Gate  int       `json:"gate,omitempty"`
	LastN int       `json:"lastn,omitempty"`
	Ops   []CloseOp `json:"ops,omitempty"`
}

// CloseOp kinds:
//
//	acq    Connection(address A; 0 = the one being closed, 1 = the bystander) with a
//	       background context (Ctx 0) or a context of its own (Ctx 1)
//	cancel cancel the context of the I-th request of this round that has one
//	rel2   the done func of the I-th handle that was released before, again
//	dup    one more call of the done func whose call is the last release
//	relb   the I-th unreleased handle of the bystander address is released
//	relr   the I-th request of this round that has returned with a connection releases it
type CloseOp struct {
	K   string `json:"k"`
	A   int    `json:"a,omitempty"`
	Ctx int    `json:"ctx,omitempty"`
	I   int    `json:"i,omitempty"`
}

const (
	cgNone = iota
	cgTransport
	cgResolver
)

func gateName(g int) string {
	switch mod(g, 3) {
	case cgTransport:
		return "transport"
	case cgResolver:
		return "resolver"
	}
	return "none"
}

// cconn is one invocation of the dial function of this part.
type cconn struct {
	id, ai int
	// guarded by cenv.mu
	cc       *grpc.ClientConn
	net      int
	srvConns []net.Conn
	gate     int
	entered  int
	open     chan struct{}
	opened   bool
	byDial   bool // closed by the dial function itself (its context ended while it waited for READY)
}

// chold is one Connection() call.
type chold struct {
	id, ai int
	round  int // -1: before the first round / top-up / epilogue
	own    bool
	cancel context.CancelFunc
	// guarded by cenv.mu
	returned  bool
	conn      *grpc.ClientConn
	done      func()
	err       error
	panicMsg  string
	cancelled bool
	// root goroutine only
	released bool
	inWindow bool // started while the last release was inside Close
	early    bool // returned inside the window
}

// ccall is a call of a done func on a goroutine of its own.
type ccall struct {
	what string
	// guarded by cenv.mu
	returned bool
	panicMsg string
}

type closeStats struct {
	labels     map[string]bool
	nontrivial bool
}

func (s *closeStats) labelList() []string {
	out := make([]string, 0, len(s.labels))
	for l := range s.labels {
		out = append(out, l)
	}
	sort.Strings(out)
	return out
}

type cenv struct {
	sc  *CloseCase
	m   *connection.Manager
	tab []string
	idx map[string]int
	srv *grpc.Server
	lis *pipeListener

	mu       sync.Mutex
	conns    []*cconn
	inflight [2]int
	viol     *verr

	// root goroutine only
	holds  []*chold
	calls  []*ccall
	log    []string
	st     closeStats
	stack  []byte
	gaveUp bool
}

func (e *cenv) label(l string) { e.st.labels[l] = true }

func (e *cenv) logf(format string, a ...any) { e.log = append(e.log, fmt.Sprintf(format, a...)) }

func (e *cenv) violate(class, format string, a ...any) {
	e.mu.Lock()
	if e.viol == nil {
		e.viol = newVerr(class, format, a...)
	}
	e.mu.Unlock()
}

func (e *cenv) firstViol() *verr {
	e.mu.Lock()
	defer e.mu.Unlock()
	return e.viol
}

// --- harness code that gRPC calls ---------------------------------------------------

type closeDialErr struct {
	c     *cconn
	cause error
}

func (d *closeDialErr) Error() string {
	return fmt.Sprintf("dial #%d to %s: %v", d.c.id, addrName(d.c.ai), d.cause)
}
func (d *closeDialErr) Unwrap() error { return d.cause }

// cgateBuilder builds the name resolver of one connection: it reports one
// address at once (like passthrough) and its Close parks while the resolver
// gate of the connection is armed.
type cgateBuilder struct {
	e *cenv
	c *cconn
}

func (b *cgateBuilder) Scheme() string { return "c16close" }
func (b *cgateBuilder) Build(_ resolver.Target, cc resolver.ClientConn, _ resolver.BuildOptions) (resolver.Resolver, error) {
	cc.UpdateState(resolver.State{Addresses: []resolver.Address{{Addr: "c16"}}})
	return &cgateResolver{b: b}, nil
}

type cgateResolver struct{ b *cgateBuilder }

func (r *cgateResolver) ResolveNow(resolver.ResolveNowOptions) {}
func (r *cgateResolver) Close()                                { r.b.e.park(r.b.c, cgResolver) }

// cgatedConn is the client side of a transport; its Close parks while the
// transport gate of the connection is armed.
type cgatedConn struct {
	net.Conn
	e *cenv
	c *cconn
}

func (g *cgatedConn) Close() error {
	g.e.park(g.c, cgTransport)
	return g.Conn.Close()
}

func (e *cenv) park(c *cconn, kind int) {
	e.mu.Lock()
	if c.gate != kind || c.opened || c.open == nil {
		e.mu.Unlock()
		return
	}
	c.entered++
	ch := c.open
	e.mu.Unlock()
	<-ch
}

func (e *cenv) netDial(ctx context.Context, c *cconn) (net.Conn, error) {
	e.mu.Lock()
	mode := c.net
	e.mu.Unlock()
	switch mode {
	case netHang:
		<-ctx.Done()
		return nil, ctx.Err()
	case netServe:
		a, b := net.Pipe()
		select {
		case e.lis.ch <- b:
			e.mu.Lock()
			c.srvConns = append(c.srvConns, b)
			e.mu.Unlock()
			return &cgatedConn{Conn: a, e: e, c: c}, nil
		case <-e.lis.done:
		case <-ctx.Done():
		}
		a.Close()
		b.Close()
		return nil, errors.New("c16: in-bubble server gone")
	}
	return nil, errors.New("c16: connection refused (scripted)")
}

// dial is the connection.Dial of this part: it succeeds at once unless its
// context has ended.
func (e *cenv) dial(ctx context.Context, target string, opts ...grpc.DialOption) (*grpc.ClientConn, error) {
	ai, ok := e.idx[target]
	if !ok {
		e.violate("unexpected-dial", "the dial function was invoked for %q, which nobody asked for", target)
		return nil, fmt.Errorf("unknown target %q", target)
	}
	e.mu.Lock()
	c := &cconn{id: len(e.conns), ai: ai, net: netRefuse}
	if e.sc.Ready {
		c.net = netServe
	}
	e.conns = append(e.conns, c)
	e.inflight[ai]++
	second := e.inflight[ai] > 1
	e.mu.Unlock()
	defer func() {
		e.mu.Lock()
		e.inflight[ai]--
		e.mu.Unlock()
	}()
	if second {
		e.violate("second-dial-in-flight", "dial #%d to %s was invoked while an earlier invocation of the dial function for the same address had not returned", c.id, addrName(ai))
	}
	if ctx.Err() != nil {
		return nil, &closeDialErr{c: c, cause: ctx.Err()}
	}
	o := append(append([]grpc.DialOption(nil), opts...),
		grpc.WithResolvers(&cgateBuilder{e: e, c: c}),
		grpc.WithContextDialer(func(ctx context.Context, _ string) (net.Conn, error) { return e.netDial(ctx, c) }))
	cc, err := grpc.NewClient("c16close:///x", o...)
	if err != nil {
		e.violate("harness-error", "grpc.NewClient: %v", err)
		return nil, err
	}
	if e.sc.Ready {
		// a blocking dial: the connection is READY when the dial function returns
		cc.Connect()
		for s := cc.GetState(); s != connectivity.Ready; s = cc.GetState() {
			if !cc.WaitForStateChange(ctx, s) {
				e.mu.Lock()
				c.cc, c.byDial = cc, true
				e.mu.Unlock()
				cc.Close()
				return nil, &closeDialErr{c: c, cause: ctx.Err()}
			}
		}
	}
	e.mu.Lock()
	c.cc = cc
	e.mu.Unlock()
	return cc, nil
}

// --- quiescence ------------------------------------------------------------------------

var goroutineHeader = regexp.MustCompile(`(?m)^goroutine \d+ \[([^\]]*)\]:$`)

// settleModuloLocks returns when no goroutine but the caller is running or
// runnable: every goroutine of the bubble is blocked, durably or on a lock.
// (A goroutine that the runtime has detached from its bubble for a moment - it
// starts or assists a garbage collection - is listed without the bubble tag;
// any goroutine that is not blocked therefore counts.) locked: goroutines of
// the bubble blocked on something synctest does not regard as durable.
func (e *cenv) settleModuloLocks() (locked int) {
	if e.stack == nil {
		e.stack = make([]byte, 1<<20)
	}
	for try := 0; try < 20000; try++ {
		n := runtime.Stack(e.stack, true)
		for n == len(e.stack) && len(e.stack) < 1<<26 {
			e.stack = make([]byte, 4*len(e.stack))
			n = runtime.Stack(e.stack, true)
		}
		active := 0
		locked = 0
		for i, m := range goroutineHeader.FindAllSubmatch(e.stack[:n], -1) {
			if i == 0 {
				continue // the caller
			}
			state := string(m[1])
			first := strings.SplitN(state, ",", 2)[0]
			busy := strings.HasPrefix(first, "running") || strings.HasPrefix(first, "runnable")
			if !strings.Contains(state, "synctest bubble") {
				if busy {
					active++
				}
				continue
			}
			switch {
			case busy, strings.HasPrefix(first, "syscall"), strings.HasPrefix(first, "IO wait"):
				active++
			case !strings.Contains(first, "(durable)"):
				locked++
			}
		}
		if active == 0 {
			return locked
		}
		runtime.Gosched()
	}
	// never seen quiet (another test process keeps the machine busy in some odd
	// way): go on; the verdicts do not depend on it
	e.gaveUp = true
	e.label("settle-gave-up")
	return 0
}

func (e *cenv) anyParked() bool {
	e.mu.Lock()
	defer e.mu.Unlock()
	for _, c := range e.conns {
		if c.open != nil && !c.opened && c.entered > 0 {
			return true
		}
	}
	return false
}

func (e *cenv) anyArmed() bool {
	e.mu.Lock()
	defer e.mu.Unlock()
	for _, c := range e.conns {
		if c.open != nil && !c.opened {
			return true
		}
	}
	return false
}

// quiesce: synctest.Wait, unless a gate is armed (a goroutine may then sit in
// Close with the Manager's lock held and others wait for that lock).
func (e *cenv) quiesce() {
	if e.anyArmed() {
		e.settleModuloLocks()
		return
	}
	synctest.Wait()
}

// --- calls ---------------------------------------------------------------------------------

func (e *cenv) connOf(cc *grpc.ClientConn) *cconn {
	e.mu.Lock()
	defer e.mu.Unlock()
	for _, c := range e.conns {
		if c.cc == cc && cc != nil {
			return c
		}
	}
	return nil
}

func (e *cenv) cname(cc *grpc.ClientConn) string {
	if cc == nil {
		return "nil"
	}
	if c := e.connOf(cc); c != nil {
		return fmt.Sprintf("conn#%d", c.id)
	}
	return "conn#unknown"
}

// request starts Connection(addr ai) on a goroutine of its own.
func (e *cenv) request(ai, round int, own bool) *chold {
	h := &chold{id: len(e.holds), ai: ai, round: round, own: own}
	ctx := context.Background()
	if own {
		ctx, h.cancel = context.WithCancel(ctx)
	}
	e.holds = append(e.holds, h)
	go func() {
		defer func() {
			if p := recover(); p != nil {
				m := describePanic(p)
				e.mu.Lock()
				h.panicMsg = m
				e.mu.Unlock()
			}
		}()
		conn, done, err := e.m.Connection(ctx, e.tab[ai], connection.DEFAULT)
		e.mu.Lock()
		h.conn, h.done, h.err, h.returned = conn, done, err, true
		e.mu.Unlock()
	}()
	return h
}

func (e *cenv) state(h *chold) (returned bool, conn *grpc.ClientConn, err error, pm string) {
	e.mu.Lock()
	defer e.mu.Unlock()
	return h.returned, h.conn, h.err, h.panicMsg
}

// invoke starts f (a done func) on a goroutine of its own.
func (e *cenv) invoke(what string, f func()) *ccall {
	c := &ccall{what: what}
	e.calls = append(e.calls, c)
	go func() {
		defer func() {
			if p := recover(); p != nil {
				m := describePanic(p)
				e.mu.Lock()
				c.panicMsg = m
				e.mu.Unlock()
			}
		}()
		f()
		e.mu.Lock()
		c.returned = true
		e.mu.Unlock()
	}()
	return c
}

// allReturned: every call and request started so far has returned, nothing panicked.
func (e *cenv) allReturned(when string) *verr {
	e.mu.Lock()
	defer e.mu.Unlock()
	for _, c := range e.calls {
		if c.panicMsg != "" {
			return newVerr("panic", "%s panicked: %s", c.what, c.panicMsg)
		}
		if !c.returned {
			return newVerr("blocked-call", "%s: %s has not returned", when, c.what)
		}
	}
	for _, h := range e.holds {
		if h.panicMsg != "" {
			return newVerr("panic", "Connection(%s) of r%d panicked: %s", addrName(h.ai), h.id, h.panicMsg)
		}
		if !h.returned {
			return newVerr("stuck-requester", "%s: r%d has not returned from Connection(%s)", when, h.id, addrName(h.ai))
		}
	}
	return nil
}

func (e *cenv) panics() *verr {
	e.mu.Lock()
	defer e.mu.Unlock()
	for _, c := range e.calls {
		if c.panicMsg != "" {
			return newVerr("panic", "%s panicked: %s", c.what, c.panicMsg)
		}
	}
	for _, h := range e.holds {
		if h.panicMsg != "" {
			return newVerr("panic", "Connection(%s) of r%d panicked: %s", addrName(h.ai), h.id, h.panicMsg)
		}
	}
	return nil
}

// holding: requests that were handed a connection and have not released it.
func (e *cenv) holding(ai int) []*chold {
	var out []*chold
	for _, h := range e.holds {
		ret, conn, err, _ := e.state(h)
		if h.ai == ai && ret && err == nil && conn != nil && !h.released {
			out = append(out, h)
		}
	}
	return out
}

// heldOpen: the holder-local clause, for every unreleased hand-out.
func (e *cenv) heldOpen(when string) *verr {
	for _, h := range e.holds {
		ret, conn, err, _ := e.state(h)
		if !ret || err != nil || conn == nil || h.released {
			continue
		}
		if conn.GetState() == connectivity.Shutdown {
			extra := ""
			if h.inWindow {
				extra = fmt.Sprintf(" (the request was made in round %d while the last release of the address's connection was inside ClientConn.Close)", h.round)
			}
			return newVerr("closed-while-held", "%s: %s, handed to r%d for %s, is closed (state SHUTDOWN) although r%d has not released it%s", when, e.cname(conn), h.id, addrName(h.ai), h.id, extra)
		}
	}
	return nil
}

// invariant: what holds at every quiescent point without a parked Close.
func (e *cenv) invariant(when string) *verr {
	if v := e.firstViol(); v != nil {
		return v
	}
	if v := e.heldOpen(when); v != nil {
		return v
	}
	for ai := 0; ai < 2; ai++ {
		hs := e.holding(ai)
		var cur *grpc.ClientConn
		for _, h := range hs {
			_, conn, _, _ := e.state(h)
			c := e.connOf(conn)
			switch {
			case c == nil:
				return newVerr("outcome-not-shared", "%s: r%d was handed a connection that no invocation of the dial function returned", when, h.id)
			case c.ai != ai:
				return newVerr("outcome-not-shared", "%s: r%d asked for %s and was handed %s, which was dialled for %s", when, h.id, addrName(ai), e.cname(conn), addrName(c.ai))
			case cur != nil && cur != conn:
				return newVerr("redial-while-live", "%s: r%d holds %s and another requester holds %s, both for %s and both unreleased", when, h.id, e.cname(conn), e.cname(cur), addrName(ai))
			}
			cur = conn
		}
		e.mu.Lock()
		var open []*cconn
		for _, c := range e.conns {
			if c.ai == ai && c.cc != nil && c.cc.GetState() != connectivity.Shutdown {
				open = append(open, c)
			}
		}
		e.mu.Unlock()
		for _, c := range open {
			if c.cc != cur {
				if cur == nil {
					return newVerr("not-closed-at-last-release", "%s: nobody holds a connection to %s, but conn#%d is in state %v: not closed at its last release", when, addrName(ai), c.id, c.cc.GetState())
				}
				return newVerr("not-closed-at-last-release", "%s: the holders of %s hold %s, but conn#%d of the same address is in state %v: not closed at its last release", when, addrName(ai), e.cname(cur), c.id, c.cc.GetState())
			}
		}
	}
	return nil
}

// outcome judges a request that has returned.
func (e *cenv) outcome(h *chold) *verr {
	e.mu.Lock()
	conn, done, err := h.conn, h.done, h.err
	own := h.cancelled
	peer := false
	for _, o := range e.holds {
		peer = peer || (o != h && o.ai == h.ai && o.cancelled)
	}
	e.mu.Unlock()
	switch {
	case done == nil:
		return newVerr("nil-done", "Connection(%s) returned a nil done func to r%d", addrName(h.ai), h.id)
	case conn == nil && err == nil:
		return newVerr("nil-conn-nil-error", "r%d got (nil connection, nil error) for %s", h.id, addrName(h.ai))
	case conn != nil && err != nil:
		return newVerr("outcome-not-shared", "r%d got both a connection and the error %q", h.id, err)
	case err != nil:
		ctxErr := errors.Is(err, context.Canceled) || errors.Is(err, context.DeadlineExceeded)
		if !ctxErr || !(own || peer) {
			return newVerr("outcome-not-shared", "r%d got the error %q for %s although every dial succeeds unless its context has ended (own context cancelled: %v, context of another requester of the address cancelled: %v)", h.id, err, addrName(h.ai), own, peer)
		}
		e.label("request-failed-for-a-cancelled-context")
	}
	return nil
}

func (e *cenv) history() string { return "\nhistory:\n  " + strings.Join(e.log, "\n  ") }

// --- the case ---------------------------------------------------------------------------

// acquire makes one request to quiescence (no Close is parked) and judges it.
func (e *cenv) acquire(ai int, why string) (*chold, *verr) {
	before := e.holding(ai)
	e.mu.Lock()
	n0 := len(e.conns)
	e.mu.Unlock()
	h := e.request(ai, -1, false)
	synctest.Wait()
	ret, conn, err, pm := e.state(h)
	e.logf("r%d calls Connection(%s) (%s) -> %s", h.id, addrName(ai), why, e.result(h))
	switch {
	case pm != "":
		return h, newVerr("panic", "Connection(%s) of r%d panicked: %s", addrName(ai), h.id, pm)
	case !ret:
		return h, newVerr("stuck-requester", "r%d is blocked in Connection(%s) although nothing is pending (%s)", h.id, addrName(ai), why)
	}
	if v := e.outcome(h); v != nil {
		return h, v
	}
	if err != nil {
		return h, newVerr("outcome-not-shared", "r%d got the error %q for %s with a background context although every dial succeeds", h.id, err, addrName(ai))
	}
	e.mu.Lock()
	n := len(e.conns) - n0
	e.mu.Unlock()
	switch {
	case len(before) > 0 && n != 0:
		return h, newVerr("redial-while-live", "the request of r%d invoked the dial function although %d requester(s) hold the connection of %s unreleased", h.id, len(before), addrName(ai))
	case len(before) == 0 && n != 1:
		return h, newVerr("no-fresh-dial", "nobody holds a connection to %s, but the request of r%d invoked the dial function %d time(s) and returned %s", addrName(ai), h.id, n, e.cname(conn))
	}
	return h, e.invariant(fmt.Sprintf("after the request of r%d", h.id))
}

func (e *cenv) result(h *chold) string {
	ret, conn, err, _ := e.state(h)
	if !ret {
		return "blocked"
	}
	s := "nil"
	if err != nil {
		s = fmt.Sprintf("error %q", err.Error())
	}
	return fmt.Sprintf("returned (%s, %s)", e.cname(conn), s)
}

// releaseOne: a release to quiescence (no gate is armed).
func (e *cenv) releaseOne(h *chold, why string) *verr {
	_, conn, _, _ := e.state(h)
	others := 0
	for _, o := range e.holding(h.ai) {
		if o != h {
			others++
		}
	}
	c := e.invoke(fmt.Sprintf("the done func of r%d (%s)", h.id, why), h.done)
	synctest.Wait()
	h.released = true
	e.logf("r%d releases %s (%s) -> state %v", h.id, e.cname(conn), why, conn.GetState())
	e.mu.Lock()
	ret, pm := c.returned, c.panicMsg
	e.mu.Unlock()
	switch {
	case pm != "":
		return newVerr("panic", "%s panicked: %s", c.what, pm)
	case !ret:
		return newVerr("blocked-call", "%s did not return", c.what)
	}
	if others == 0 && conn.GetState() != connectivity.Shutdown {
		return newVerr("not-closed-at-last-release", "r%d was the last holder of %s (%s) and released it, but it is in state %v", h.id, e.cname(conn), addrName(h.ai), conn.GetState())
	}
	return e.invariant(fmt.Sprintf("after the release by r%d", h.id))
}

// bring takes the connection into the state the round asks for.
func (e *cenv) bring(c *cconn, state int) {
	cc := c.cc
	drop := func() {
		e.mu.Lock()
		sc := c.srvConns
		c.srvConns = nil
		e.mu.Unlock()
		for _, s := range sc {
			s.Close()
		}
		synctest.Wait()
	}
	connect := func(mode int) {
		e.mu.Lock()
		c.net = mode
		e.mu.Unlock()
		if cc.GetState() == connectivity.Ready && mode != netServe {
			drop()
		}
		cc.Connect()
		synctest.Wait()
	}
	switch mod(state, 5) {
	case 1:
		connect(netRefuse)
	case 2:
		connect(netHang)
	case 3:
		connect(netServe)
	case 4:
		connect(netServe)
		drop()
	}
}

func (e *cenv) round(ri int, rd CloseRound) *verr {
	const target = 0
	// holders
	hs := e.holding(target)
	want := 1 + mod(rd.Holders-1, 4)
	for len(hs) < want {
		h, v := e.acquire(target, fmt.Sprintf("holder of round %d", ri))
		if v != nil {
			return v
		}
		hs = append(hs, h)
	}
	if len(hs) >= 2 {
		e.label("shared-connection-before-its-last-release")
	}
	_, conn, _, _ := e.state(hs[0])
	c := e.connOf(conn)
	if c == nil {
		return newVerr("outcome-not-shared", "r%d holds a connection that no invocation of the dial function returned", hs[0].id)
	}
	e.bring(c, rd.State)
	if v := e.invariant(fmt.Sprintf("round %d, after the connectivity change", ri)); v != nil {
		return v
	}
	state := conn.GetState()
	e.logf("-- round %d: %s of %s is %v, %d holder(s), gate: %s", ri, e.cname(conn), addrName(target), state, len(hs), gateName(rd.Gate))
	// all holders but one release, one call at a time
	for _, h := range hs[:len(hs)-1] {
		if v := e.releaseOne(h, "not the last holder"); v != nil {
			return v
		}
	}
	last := hs[len(hs)-1]
	// arm the gate and make the last release
	gate := mod(rd.Gate, 3)
	if gate != cgNone {
		e.mu.Lock()
		c.gate, c.open, c.opened, c.entered = gate, make(chan struct{}), false, 0
		e.mu.Unlock()
	}
	openGate := func() {
		e.mu.Lock()
		if c.open != nil && !c.opened {
			c.opened = true
			close(c.open)
		}
		e.mu.Unlock()
	}
	defer openGate()
	n := 1 + mod(rd.LastN, 4)
	if n > 1 {
		e.label("last-release-from-several-goroutines")
	}
	start := make(chan struct{})
	for g := 0; g < n; g++ {
		e.invoke(fmt.Sprintf("the done func of r%d (last holder of %s, one of %d concurrent call(s))", last.id, e.cname(conn), n), func() { <-start; last.done() })
	}
	synctest.Wait()
	close(start)
	e.quiesce()
	last.released = true
	parked := e.anyParked()
	e.label("last-release-in-state-" + state.String())
	switch {
	case parked:
		e.label("close-parked-in-" + gateName(gate) + "-close")
		e.label("close-parked-in-state-" + state.String())
		e.logf("r%d releases %s as its last holder from %d goroutine(s): parked inside ClientConn.Close (%s); state %v", last.id, e.cname(conn), n, gateName(gate), conn.GetState())
	case gate != cgNone:
		e.label("gate-armed-but-close-did-not-reach-it")
		openGate()
		synctest.Wait()
		e.logf("r%d releases %s as its last holder from %d goroutine(s): Close ran through (no %s to close); state %v", last.id, e.cname(conn), n, gateName(gate), conn.GetState())
	default:
		e.label("close-ran-through")
		e.logf("r%d releases %s as its last holder from %d goroutine(s); state %v", last.id, e.cname(conn), n, conn.GetState())
	}
	if v := e.panics(); v != nil {
		return v
	}
	if !parked {
		if v := e.allReturned(fmt.Sprintf("round %d, after the last release", ri)); v != nil {
			return v
		}
		if conn.GetState() != connectivity.Shutdown {
			return newVerr("not-closed-at-last-release", "round %d: r%d was the last holder of %s and released it, but it is in state %v", ri, last.id, e.cname(conn), conn.GetState())
		}
		if v := e.invariant(fmt.Sprintf("round %d, after the last release", ri)); v != nil {
			return v
		}
	}
	// the calls made meanwhile
	var mine []*chold
	sameAddr := 0
	for oi, op := range rd.Ops {
		what := ""
		switch op.K {
		case "acq":
			ai := mod(op.A, 2)
			h := e.request(ai, ri, mod(op.Ctx, 2) == 1)
			h.inWindow = parked
			mine = append(mine, h)
			e.quiesce()
			ret, _, _, _ := e.state(h)
			what = fmt.Sprintf("r%d calls Connection(%s)", h.id, addrName(ai))
			if h.own {
				what += " with a context of its own"
			}
			what += " -> " + e.result(h)
			if parked {
				if ai == target {
					sameAddr++
					e.label("window:request-for-the-address-being-closed")
				} else {
					e.label("window:request-for-another-address")
				}
				if ret {
					h.early = true
					e.label("window:request-returned-while-close-was-parked")
				} else {
					e.label("window:request-waits-until-close-has-finished")
				}
			}
			if ret {
				if v := e.outcome(h); v != nil {
					return v
				}
			}
		case "cancel":
			var cands []*chold
			for _, h := range mine {
				e.mu.Lock()
				if h.own && !h.cancelled {
					cands = append(cands, h)
				}
				e.mu.Unlock()
			}
			if len(cands) == 0 {
				what = "cancel (skipped: no request of this round has an uncancelled context of its own)"
				break
			}
			h := cands[mod(op.I, len(cands))]
			e.mu.Lock()
			h.cancelled = true
			e.mu.Unlock()
			h.cancel()
			e.quiesce()
			what = fmt.Sprintf("the context of r%d is cancelled -> %s", h.id, e.result(h))
			if parked {
				e.label("window:context-of-a-request-cancelled")
			}
		case "rel2":
			var cands []*chold
			for _, h := range e.holds {
				if h.released && h != last {
					cands = append(cands, h)
				}
			}
			if len(cands) == 0 {
				what = "rel2 (skipped: nothing was released before)"
				break
			}
			h := cands[mod(op.I, len(cands))]
			e.invoke(fmt.Sprintf("the done func of r%d, called again", h.id), h.done)
			e.quiesce()
			what = fmt.Sprintf("r%d calls its done func again", h.id)
			if parked {
				e.label("window:repeated-release-of-another-handle")
			}
		case "dup":
			e.invoke(fmt.Sprintf("the done func of r%d (the last release), called once more", last.id), last.done)
			e.quiesce()
			what = fmt.Sprintf("the done func of r%d (the last release) is called once more", last.id)
			if parked {
				e.label("window:another-call-of-the-parked-done-func")
			}
		case "relb", "relr":
			var cands []*chold
			if op.K == "relb" {
				cands = e.holding(1)
			} else {
				for _, h := range mine {
					ret, cn, err, _ := e.state(h)
					if ret && err == nil && cn != nil && !h.released {
						cands = append(cands, h)
					}
				}
			}
			if len(cands) == 0 {
				what = op.K + " (skipped: no such handle)"
				break
			}
			h := cands[mod(op.I, len(cands))]
			_, cn, _, _ := e.state(h)
			if cn.GetState() == connectivity.Shutdown {
				return newVerr("closed-while-held", "round %d: %s, handed to r%d for %s, is closed (state SHUTDOWN) before r%d releases it", ri, e.cname(cn), h.id, addrName(h.ai), h.id)
			}
			lastOf := len(e.holding(h.ai)) == 1
			e.invoke(fmt.Sprintf("the done func of r%d", h.id), h.done)
			e.quiesce()
			h.released = true
			what = fmt.Sprintf("r%d releases %s (%s)", h.id, e.cname(cn), addrName(h.ai))
			if parked {
				if lastOf {
					e.label("window:last-release-of-another-connection")
				} else {
					e.label("window:release-of-another-connection")
				}
			}
		default:
			return newVerr("harness-error", "unknown op %q", op.K)
		}
		e.logf("   op %d: %s", oi, what)
		if v := e.panics(); v != nil {
			return v
		}
		if v := e.firstViol(); v != nil {
			return v
		}
		// holder-local, at any moment
		if v := e.heldOpen(fmt.Sprintf("round %d, after op %d", ri, oi)); v != nil {
			return v
		}
		if !parked {
			if v := e.allReturned(fmt.Sprintf("round %d, after op %d (no Close is parked)", ri, oi)); v != nil {
				return v
			}
			if v := e.invariant(fmt.Sprintf("round %d, after op %d", ri, oi)); v != nil {
				return v
			}
		}
	}
	if parked {
		if sameAddr > 0 && state != connectivity.Idle {
			e.st.nontrivial = true
		}
		openGate()
		synctest.Wait()
		e.logf("   the gate opens; %s is %v", e.cname(conn), conn.GetState())
		for _, h := range mine {
			if !h.early {
				e.logf("   r%d %s", h.id, e.result(h))
			}
		}
	}
	when := fmt.Sprintf("round %d, after the last release of %s has finished", ri, e.cname(conn))
	if v := e.allReturned(when); v != nil {
		return v
	}
	for _, h := range mine {
		if v := e.outcome(h); v != nil {
			return v
		}
		_, cn, _, _ := e.state(h)
		if cn == conn && !h.released {
			return newVerr("closed-while-held", "%s: r%d, whose request was made after the last holder of %s had begun to release it, was handed that very connection (state %v) instead of a freshly dialled one", when, h.id, e.cname(conn), conn.GetState())
		}
	}
	if conn.GetState() != connectivity.Shutdown {
		return newVerr("not-closed-at-last-release", "%s: it is in state %v", when, conn.GetState())
	}
	return e.invariant(when)
}

func (e *cenv) epilogue() *verr {
	e.logf("-- epilogue --")
	for ai := 0; ai < 2; ai++ {
		for _, h := range e.holding(ai) {
			_, cn, _, _ := e.state(h)
			if cn.GetState() == connectivity.Shutdown {
				return newVerr("closed-while-held", "epilogue: %s, handed to r%d for %s, is closed (state SHUTDOWN) before r%d releases it", e.cname(cn), h.id, addrName(ai), h.id)
			}
			if v := e.releaseOne(h, "epilogue"); v != nil {
				return v
			}
		}
	}
	// every done func once more: no effect
	for _, h := range e.holds {
		e.mu.Lock()
		d := h.done
		e.mu.Unlock()
		if d != nil {
			e.invoke(fmt.Sprintf("the done func of r%d, called again at the end", h.id), d)
		}
	}
	synctest.Wait()
	if v := e.allReturned("epilogue"); v != nil {
		return v
	}
	if v := e.invariant("epilogue, after every done func was called again"); v != nil {
		return v
	}
	for ai := 0; ai < 2; ai++ {
		h, v := e.acquire(ai, "final request: must dial afresh")
		if v != nil {
			return v
		}
		if v := e.releaseOne(h, "final request"); v != nil {
			return v
		}
	}
	e.mu.Lock()
	defer e.mu.Unlock()
	for _, c := range e.conns {
		if c.cc != nil && c.cc.GetState() != connectivity.Shutdown {
			return newVerr("not-closed-at-last-release", "every handle has been released, but conn#%d (%s) is in state %v", c.id, addrName(c.ai), c.cc.GetState())
		}
	}
	return nil
}

func (e *cenv) cleanup() {
	e.mu.Lock()
	for _, c := range e.conns {
		if c.open != nil && !c.opened {
			c.opened = true
			close(c.open)
		}
	}
	e.mu.Unlock()
	for _, h := range e.holds {
		if h.cancel != nil {
			h.cancel()
		}
	}
	synctest.Wait()
	e.mu.Lock()
	var ccs []*grpc.ClientConn
	var sc []net.Conn
	for _, c := range e.conns {
		if c.cc != nil {
			ccs = append(ccs, c.cc)
		}
		sc = append(sc, c.srvConns...)
		c.srvConns = nil
	}
	e.mu.Unlock()
	for _, cc := range ccs {
		if cc.GetState() != connectivity.Shutdown {
			cc.Close()
		}
	}
	synctest.Wait()
	for _, s := range sc {
		s.Close()
	}
	e.srv.Stop()
	e.lis.Close()
	synctest.Wait()
}

func runCloseBubble(sc *CloseCase) (closeStats, *verr) {
	if len(sc.Rounds) < 1 || len(sc.Rounds) > 16 {
		return closeStats{}, newVerr("harness-error", "close case out of range: %d rounds", len(sc.Rounds))
	}
	e := &cenv{sc: sc, idx: map[string]int{}, st: closeStats{labels: map[string]bool{}}}
	var distinct bool
	if e.tab, distinct = addrTable(sc.Names, 2); !distinct {
		return closeStats{}, newVerr("harness-error", "the address spellings of the case are not pairwise different after case folding")
	}
	for i, a := range e.tab {
		e.idx[a] = i
	}
	if len(sc.Names) > 0 {
		e.log = append(e.log, describeTable(e.tab))
	}
	for _, l := range nameLabels(e.tab, len(sc.Names) > 0) {
		e.label(l)
	}
	m, err := connection.NewManagerCustom(map[string]connection.Dial{connection.DEFAULT: e.dial}, grpc.WithTransportCredentials(insecure.NewCredentials()))
	if err != nil {
		return closeStats{}, newVerr("harness-error", "NewManagerCustom: %v", err)
	}
	e.m = m
	verifhook.Set(nil)
	e.lis = &pipeListener{ch: make(chan net.Conn), done: make(chan struct{})}
	e.srv = grpc.NewServer()
	go e.srv.Serve(e.lis)
	defer e.cleanup()
	fail := func(v *verr) (closeStats, *verr) {
		v.msg += e.history()
		return e.st, v
	}
	if sc.Ready {
		e.label("dial-function-returns-READY-connections")
	}
	for i := 0; i < mod(sc.By, 3); i++ {
		if _, v := e.acquire(1, "bystander"); v != nil {
			return fail(v)
		}
	}
	for ri, rd := range sc.Rounds {
		if v := e.round(ri, rd); v != nil {
			return fail(v)
		}
	}
	if len(sc.Rounds) >= 2 {
		e.label("rounds-2-or-more")
	}
	if v := e.epilogue(); v != nil {
		return fail(v)
	}
	if e.st.nontrivial {
		e.label("nontrivial")
	}
	return e.st, nil
}

// runClose executes sc in a bubble of its own.
func runClose(t *testing.T, sc *CloseCase) (st closeStats, err error) {
	defer func() {
		if r := recover(); r != nil {
			if err == nil {
				err = newVerr("deadlock", "goroutines of the case remain blocked after every gate was opened, every context cancelled and every connection closed: %v", r)
			}
		}
	}()
	defer vstat.Watchdog(20*time.Second, 5*time.Second)()
	synctest.Test(t, func(*testing.T) {
		defer func() {
			if r := recover(); r != nil {
				err = newVerr("panic", "panic on the scenario goroutine: %s", describePanic(r))
			}
		}()
		s, v := runCloseBubble(sc)
		st = s
		if v != nil {
			err = v
		}
	})
	return st, err
}
