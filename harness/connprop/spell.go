package connprop

import (
	"context"
	"fmt"
	"strings"
	"sync"
	"testing"
	"testing/synctest"
	"time"

	"github.com/openconfig/gnmi/connection"
	"github.com/openconfig/gnmi/verifhook"
	"google.golang.org/grpc"
	"google.golang.org/grpc/connectivity"
	"google.golang.org/grpc/credentials/insecure"
	"verif/harness/internal/vstat"
)

// SpellCase is a stepwise case (synctest bubble, one step at a time to
// quiescence) about the ADDRESS STRINGS themselves: the spellings are given
// verbatim and several of them may differ only in case (or in surrounding white
// space). C16 does not say whether such spellings are one address or several,
// so the oracles of this part are the ones that hold either way; they are keyed
// by connection identity and by the class of a spelling (its foldKey), not by
// an exact per-address model:
//
//   - a request invokes the dial function at most once, for a target of its own
//     class; no other kind of step invokes it;
//   - no dial while a request for exactly the same spelling is blocked or holds
//     a connection unreleased (it must join / share); a dial is mandatory when
//     nothing of the whole class is pending or held (forgotten: dial afresh);
//   - an error returned is the error instance of a dial of the class whose dial
//     function returned no earlier than the step in which the request was made
//     (a failure already reported is never reported to a later request);
//   - a connection returned was made by a dial of the class, is not SHUTDOWN,
//     and either was made during the request or was held unreleased by somebody
//     when the request was made; it is the connection of the holders of exactly
//     the same spelling if there are any;
//   - at every quiescent point a connection is open iff some request that got it
//     has not released it (closed at the last release, never before);
//   - a blocked request has an unfinished dial of its class to wait for;
//   - releasing twice or after a failed request changes none of this.
//
// Steps reuse Step: acq (A = spelling index, F = outcome of a dial it starts: 0
// parks until a fin step, 1 ok at once, 2 error at once), fin (I, OK), rel (I,
// All), rel2 (I), relf (I). Background contexts only, no gates.
type SpellCase struct {
	Spell []string `json:"spell"`
	Steps []Step   `json:"steps"`
}

type spDial struct {
	id      int
	target  string
	cls     string
	ch      chan bool
	started int
	// guarded by spell.mu
	returned bool
	retStep  int
	conn     *grpc.ClientConn
	err      error
}

type spErr struct{ d *spDial }

func (e *spErr) Error() string {
	return fmt.Sprintf("scripted failure of dial #%d to %q", e.d.id, e.d.target)
}

type spReq struct {
	id, si int
	sp     string
	cls    string
	began  int
	// guarded by spell.mu (written by the calling goroutine)
	returned bool
	conn     *grpc.ClientConn
	done     func()
	err      error
	panicMsg string
	// model
	observed bool
	released int
	// facts about the moment the request was made
	exactHeld *grpc.ClientConn // held by a request of exactly the same spelling
	heldThen  map[*grpc.ClientConn]bool
}

func (r *spReq) holding() bool { return r.observed && r.err == nil && r.conn != nil && r.released == 0 }

type spell struct {
	mu    sync.Mutex
	sc    *SpellCase
	m     *connection.Manager
	dials []*spDial
	now   int
	auto  int

	reqs   []*spReq
	step   int
	log    []string
	labels map[string]bool
	epi    bool
}

func (h *spell) label(l string) {
	if h.epi {
		l = "epilogue:" + l
	}
	h.labels[l] = true
}

func (h *spell) dial(ctx context.Context, target string, opts ...grpc.DialOption) (*grpc.ClientConn, error) {
	h.mu.Lock()
	d := &spDial{id: len(h.dials), target: target, cls: foldKey(target), ch: make(chan bool, 1), started: h.now}
	h.dials = append(h.dials, d)
	if h.auto != 0 {
		d.ch <- h.auto == 1
	}
	h.mu.Unlock()
	var cc *grpc.ClientConn
	var err error
	select {
	case <-ctx.Done():
		err = ctx.Err()
	case ok := <-d.ch:
		if ok {
			cc, err = grpc.NewClient("passthrough:///c16", opts...)
		} else {
			err = &spErr{d: d}
		}
	}
	h.mu.Lock()
	d.conn, d.err, d.returned, d.retStep = cc, err, true, h.now
	h.mu.Unlock()
	return cc, err
}

func (h *spell) dialName(d *spDial) string {
	return fmt.Sprintf("dial #%d (target %s)", d.id, short(d.target))
}

func short(s string) string {
	if len(s) > 40 {
		return fmt.Sprintf("%q...(%d bytes)", s[:32], len(s))
	}
	return fmt.Sprintf("%q", s)
}

func (h *spell) dialOfConn(cc *grpc.ClientConn) *spDial {
	for _, d := range h.dials {
		if d.returned && d.conn == cc {
			return d
		}
	}
	return nil
}

func (h *spell) connName(cc *grpc.ClientConn) string {
	if cc == nil {
		return "nil"
	}
	if d := h.dialOfConn(cc); d != nil {
		return fmt.Sprintf("conn#%d", d.id)
	}
	return "conn#unknown"
}

func (h *spell) result(r *spReq) string {
	e := "nil"
	if r.err != nil {
		e = fmt.Sprintf("error %q", r.err.Error())
	}
	return fmt.Sprintf("(%s, %s)", h.connName(r.conn), e)
}

// call runs a done func on a goroutine of its own to quiescence.
func (h *spell) call(what string, f func()) *verr {
	var done bool
	var pm string
	go func() {
		defer func() {
			if p := recover(); p != nil {
				m := describePanic(p)
				h.mu.Lock()
				pm = m
				h.mu.Unlock()
			}
		}()
		f()
		h.mu.Lock()
		done = true
		h.mu.Unlock()
	}()
	synctest.Wait()
	h.mu.Lock()
	defer h.mu.Unlock()
	switch {
	case pm != "":
		return newVerr("panic", "%s panicked: %s", what, pm)
	case !done:
		return newVerr("blocked-call", "%s did not return", what)
	}
	return nil
}

func (h *spell) exec(st Step) *verr {
	s := h.step
	h.step++
	h.mu.Lock()
	h.now = s
	before := len(h.dials)
	h.mu.Unlock()
	var desc string
	var v *verr
	var acq *spReq
	switch st.K {
	case "acq":
		acq, desc = h.doAcq(s, st)
	case "fin":
		desc = h.doFin(st)
	case "rel", "rel2", "relf":
		var first *spReq
		first, desc, v = h.doRel(s, st, nil)
		if v == nil && st.K == "rel" && st.All && first != nil {
			for _, o := range h.reqs {
				if v == nil && o.holding() && o.conn == first.conn {
					var d2 string
					_, d2, v = h.doRel(s, st, o)
					desc += "; " + d2
				}
			}
		}
	default:
		return newVerr("harness-error", "unknown step kind %q", st.K)
	}
	h.log = append(h.log, fmt.Sprintf("s%d: %s", s, desc))
	if v != nil {
		return v
	}
	return h.settle(s, acq, before)
}

func (h *spell) doAcq(s int, st Step) (*spReq, string) {
	si := mod(st.A, len(h.sc.Spell))
	sp := h.sc.Spell[si]
	r := &spReq{id: len(h.reqs), si: si, sp: sp, cls: foldKey(sp), began: s, heldThen: map[*grpc.ClientConn]bool{}}
	classHeld, classPending, otherSpellingHeld := false, false, false
	firstOfClass := true
	for _, o := range h.reqs {
		if o.cls != r.cls {
			continue
		}
		firstOfClass = false
		if o.holding() {
			classHeld = true
			if o.sp == sp {
				r.exactHeld = o.conn
			} else {
				otherSpellingHeld = true
			}
		}
		if !o.observed {
			classPending = true
		}
	}
	for _, o := range h.reqs {
		if o.holding() {
			r.heldThen[o.conn] = true
		}
	}
	switch {
	case firstOfClass && hasUpper(sp):
		h.label("first-request-of-a-class-spelled-with-upper-case")
	case firstOfClass:
		h.label("first-request-of-a-class-spelled-without-upper-case")
	}
	if !classHeld && !classPending && !firstOfClass {
		h.label("request-after-everything-of-the-class-was-released-or-failed")
		if hasUpper(sp) {
			h.label("request-after-everything-of-the-class-was-released-or-failed:upper-case-spelling")
		}
	}
	if r.exactHeld == nil && otherSpellingHeld {
		h.label("request-while-only-another-spelling-of-the-class-is-held")
	}
	h.reqs = append(h.reqs, r)
	desc := fmt.Sprintf("r%d calls Connection(%s)", r.id, short(sp))
	switch st.F {
	case 1:
		desc += ", a dial it starts returns a fresh connection at once"
	case 2:
		desc += ", a dial it starts returns an error at once"
	}
	h.mu.Lock()
	h.auto = st.F
	h.mu.Unlock()
	go func() {
		defer func() {
			if p := recover(); p != nil {
				m := describePanic(p)
				h.mu.Lock()
				r.panicMsg = m
				h.mu.Unlock()
			}
		}()
		conn, done, err := h.m.Connection(context.Background(), sp, connection.DEFAULT)
		h.mu.Lock()
		r.conn, r.done, r.err, r.returned = conn, done, err, true
		h.mu.Unlock()
	}()
	synctest.Wait()
	h.mu.Lock()
	h.auto = 0
	h.mu.Unlock()
	return r, desc
}

func (h *spell) doFin(st Step) string {
	var cands []*spDial
	h.mu.Lock()
	for _, d := range h.dials {
		if !d.returned {
			cands = append(cands, d)
		}
	}
	h.mu.Unlock()
	if len(cands) == 0 {
		return st.String() + " (skipped: no dial function is parked)"
	}
	d := cands[mod(st.I, len(cands))]
	out := "an error"
	if st.OK {
		out = "a fresh connection"
	}
	d.ch <- st.OK
	synctest.Wait()
	return fmt.Sprintf("%s returns %s", h.dialName(d), out)
}

func (h *spell) doRel(s int, st Step, pick *spReq) (*spReq, string, *verr) {
	var cands []*spReq
	for _, r := range h.reqs {
		if !r.observed {
			continue
		}
		switch st.K {
		case "rel":
			if r.holding() {
				cands = append(cands, r)
			}
		case "rel2":
			if r.err == nil && r.released > 0 {
				cands = append(cands, r)
			}
		case "relf":
			if r.err != nil {
				cands = append(cands, r)
			}
		}
	}
	if pick != nil {
		cands = []*spReq{pick}
	}
	if len(cands) == 0 {
		return nil, st.String() + " (skipped: no such handle)", nil
	}
	r := cands[mod(st.I, len(cands))]
	var desc string
	switch st.K {
	case "rel":
		desc = fmt.Sprintf("r%d (%s) releases %s", r.id, short(r.sp), h.connName(r.conn))
	case "rel2":
		desc = fmt.Sprintf("r%d (%s) calls the done func of %s again", r.id, short(r.sp), h.connName(r.conn))
		h.label("double-release")
	default:
		desc = fmt.Sprintf("r%d (%s) calls the done func returned with its error", r.id, short(r.sp))
		h.label("release-after-failed-request")
	}
	if v := h.call(desc, r.done); v != nil {
		v.msg = fmt.Sprintf("step %d: %s", s, v.msg)
		return r, desc, v
	}
	r.released++
	return r, desc, nil
}

// settle: the either-way oracles at the quiescent point after step s.
func (h *spell) settle(s int, acq *spReq, dialsBefore int) *verr {
	h.mu.Lock()
	defer h.mu.Unlock()
	newDials := h.dials[dialsBefore:]
	// --- invocations of the dial function ---
	switch {
	case acq == nil && len(newDials) > 0:
		return newVerr("unexpected-dial", "step %d invoked the dial function (%s) although it is not a connection request", s, h.dialName(newDials[0]))
	case len(newDials) > 1:
		return newVerr("second-dial-in-flight", "step %d: one request for %s invoked the dial function %d times", s, short(acq.sp), len(newDials))
	}
	if acq != nil {
		exactPending, classBusy := false, false
		for _, o := range h.reqs {
			if o == acq || o.cls != acq.cls {
				continue
			}
			// o.observed is the model's state before this step
			if !o.observed {
				classBusy = true
				exactPending = exactPending || o.sp == acq.sp
			}
			if o.holding() {
				classBusy = true
			}
		}
		if len(newDials) == 1 {
			d := newDials[0]
			switch {
			case d.cls != acq.cls:
				return newVerr("unexpected-dial", "step %d: the request of r%d for %s invoked the dial function for %s", s, acq.id, short(acq.sp), short(d.target))
			case exactPending:
				return newVerr("second-dial-in-flight", "step %d: the request of r%d for %s invoked the dial function (%s) although another request for exactly this spelling is still waiting for its dial", s, acq.id, short(acq.sp), h.dialName(d))
			case acq.exactHeld != nil:
				return newVerr("redial-while-live", "step %d: the request of r%d for %s invoked the dial function (%s) although %s, obtained for exactly this spelling, is held unreleased", s, acq.id, short(acq.sp), h.dialName(d), h.connName(acq.exactHeld))
			}
			if classBusy {
				h.label("another-spelling-of-a-busy-class-dialled-on-its-own")
			}
		} else {
			if !classBusy {
				state := "is blocked"
				if acq.returned {
					state = "returned " + h.result(acq)
				}
				return newVerr("no-fresh-dial", "step %d: the request of r%d for %s did not invoke the dial function although no request for any spelling of this address is pending and every connection handed out for it has been released (or its dial failed); the request %s", s, acq.id, short(acq.sp), state)
			}
			if !exactPending && acq.exactHeld == nil {
				h.label("another-spelling-of-a-busy-class-shared-without-a-dial")
			}
		}
	}
	// --- requests that returned ---
	for _, r := range h.reqs {
		if r.observed {
			continue
		}
		if r.panicMsg != "" {
			return newVerr("panic", "after step %d: Connection(%s) of r%d panicked: %s", s, short(r.sp), r.id, r.panicMsg)
		}
		if !r.returned {
			continue
		}
		switch {
		case r.done == nil:
			return newVerr("nil-done", "after step %d: Connection returned a nil done func to r%d", s, r.id)
		case r.conn == nil && r.err == nil:
			return newVerr("nil-conn-nil-error", "after step %d: r%d (%s) got (nil connection, nil error)", s, r.id, short(r.sp))
		case r.conn != nil && r.err != nil:
			return newVerr("outcome-not-shared", "after step %d: r%d (%s) got both a connection and the error %q", s, r.id, short(r.sp), r.err)
		}
		if r.err != nil {
			var d *spDial
			for _, x := range h.dials {
				if x.returned && x.err != nil && x.err == r.err {
					d = x
				}
			}
			switch {
			case d == nil:
				return newVerr("outcome-not-shared", "after step %d: r%d (%s) got the error %q, which no invocation of the dial function returned (background context, registered dialer)", s, r.id, short(r.sp), r.err)
			case d.cls != r.cls:
				return newVerr("outcome-not-shared", "after step %d: r%d (%s) got the error of %s", s, r.id, short(r.sp), h.dialName(d))
			case d.retStep < r.began:
				return newVerr("no-fresh-dial", "after step %d: r%d, which asked for %s in step %d, got the error of %s, whose dial function had returned in step %d: a failure that was already reported is reported to a request made afterwards (no dial was made for it)", s, r.id, short(r.sp), r.began, h.dialName(d), d.retStep)
			}
			h.label("dial-failed")
			if d.target != r.sp {
				h.label("got-the-error-of-a-dial-to-another-spelling")
			}
		} else {
			d := h.dialOfConn(r.conn)
			switch {
			case d == nil:
				return newVerr("outcome-not-shared", "after step %d: r%d (%s) got a connection that no invocation of the dial function has returned", s, r.id, short(r.sp))
			case d.cls != r.cls:
				return newVerr("outcome-not-shared", "after step %d: r%d (%s) got the connection made by %s", s, r.id, short(r.sp), h.dialName(d))
			case r.conn.GetState() == connectivity.Shutdown:
				return newVerr("closed-while-held", "after step %d: r%d (%s) was handed %s in state SHUTDOWN (it has not released it)", s, r.id, short(r.sp), h.connName(r.conn))
			case r.exactHeld != nil && r.conn != r.exactHeld:
				return newVerr("redial-while-live", "after step %d: r%d (%s) got %s although %s, obtained for exactly this spelling, was held unreleased when it asked", s, r.id, short(r.sp), h.connName(r.conn), h.connName(r.exactHeld))
			case d.retStep < r.began && !r.heldThen[r.conn]:
				return newVerr("no-fresh-dial", "after step %d: r%d, which asked for %s in step %d, got %s, made by a dial that returned in step %d and released by every holder before step %d: forgotten connections must not be handed out again", s, r.id, short(r.sp), r.began, h.connName(r.conn), d.retStep, r.began)
			}
			if d.target != r.sp {
				h.label("got-the-connection-of-a-dial-to-another-spelling")
			}
			if d.retStep >= r.began && d.started < r.began {
				h.label("joined-pending-dial")
			}
			if d.retStep < r.began {
				h.label("joined-live-connection")
			}
		}
		r.observed = true
	}
	// --- blocked requests ---
	for _, r := range h.reqs {
		if r.observed {
			continue
		}
		waitable := false
		for _, d := range h.dials {
			waitable = waitable || (!d.returned && d.cls == r.cls)
		}
		if !waitable {
			return newVerr("stuck-requester", "after step %d: r%d is still blocked in Connection(%s) although no dial for any spelling of this address is unfinished", s, r.id, short(r.sp))
		}
	}
	// --- connections: open iff somebody who got it has not released it ---
	for _, d := range h.dials {
		if !d.returned || d.conn == nil {
			continue
		}
		var who []string
		everHeld, sps := 0, map[string]bool{}
		for _, r := range h.reqs {
			if r.observed && r.conn == d.conn {
				everHeld++
				if r.holding() {
					who = append(who, fmt.Sprintf("r%d", r.id))
					sps[r.sp] = true
				}
			}
		}
		shut := d.conn.GetState() == connectivity.Shutdown
		switch {
		case len(who) > 0 && shut:
			return newVerr("closed-while-held", "after step %d: conn#%d (%s) is closed (state SHUTDOWN) although it was not released by %s", s, d.id, short(d.target), strings.Join(who, ", "))
		case len(who) == 0 && !shut:
			return newVerr("not-closed-at-last-release", "after step %d: every request that was handed conn#%d (%s) has released it (%d in all) but it is in state %v", s, d.id, short(d.target), everHeld, d.conn.GetState())
		}
		if len(who) >= 2 {
			h.label("overlapping-holders-2")
		}
		if len(sps) >= 2 {
			h.label("one-connection-held-under-two-spellings")
		}
	}
	return nil
}

func (h *spell) epilogue() *verr {
	bound := 4*(len(h.reqs)+len(h.dials)) + 8
	for i := 0; i < bound; i++ {
		h.mu.Lock()
		anyDial := false
		for _, d := range h.dials {
			anyDial = anyDial || !d.returned
		}
		h.mu.Unlock()
		anyHeld := false
		for _, r := range h.reqs {
			anyHeld = anyHeld || r.holding()
		}
		var st Step
		switch {
		case anyDial:
			st = Step{K: "fin", OK: true}
		case anyHeld:
			st = Step{K: "rel"}
		default:
			for _, r := range h.reqs {
				if !r.observed {
					return newVerr("stuck-requester", "epilogue: r%d never returned from Connection(%s)", r.id, short(r.sp))
				}
			}
			// everything is released: every spelling dials afresh, and is closed
			// again by its only holder
			for si := range h.sc.Spell {
				if v := h.exec(Step{K: "acq", A: si, F: 1}); v != nil {
					return v
				}
				if v := h.exec(Step{K: "rel"}); v != nil {
					return v
				}
			}
			return nil
		}
		if v := h.exec(st); v != nil {
			return v
		}
	}
	return newVerr("harness-error", "epilogue did not converge")
}

func (h *spell) cleanup() {
	h.mu.Lock()
	for _, d := range h.dials {
		if !d.returned {
			select {
			case d.ch <- true:
			default:
			}
		}
	}
	h.mu.Unlock()
	synctest.Wait()
	h.mu.Lock()
	var conns []*grpc.ClientConn
	for _, d := range h.dials {
		if d.conn != nil {
			conns = append(conns, d.conn)
		}
	}
	h.mu.Unlock()
	for _, cc := range conns {
		if cc.GetState() != connectivity.Shutdown {
			cc.Close()
		}
	}
	synctest.Wait()
}

type spellStats struct {
	labels     []string
	nontrivial bool
}

func runSpellBubble(sc *SpellCase) (spellStats, *verr) {
	if len(sc.Spell) < 1 || len(sc.Spell) > 64 || len(sc.Steps) > 4096 {
		return spellStats{}, newVerr("harness-error", "spell case out of range")
	}
	h := &spell{sc: sc, labels: map[string]bool{}}
	m, err := connection.NewManagerCustom(map[string]connection.Dial{connection.DEFAULT: h.dial}, grpc.WithTransportCredentials(insecure.NewCredentials()))
	if err != nil {
		return spellStats{}, newVerr("harness-error", "NewManagerCustom: %v", err)
	}
	h.m = m
	verifhook.Set(nil)
	defer h.cleanup()
	fail := func(v *verr) (spellStats, *verr) {
		v.msg += "\nhistory:\n  " + strings.Join(h.log, "\n  ")
		return spellStats{}, v
	}
	for _, st := range sc.Steps {
		if v := h.exec(st); v != nil {
			return fail(v)
		}
	}
	h.log = append(h.log, "-- epilogue --")
	h.epi = true
	if v := h.epilogue(); v != nil {
		return fail(v)
	}
	h.epi = false
	cls := map[string]map[string]bool{}
	for _, sp := range sc.Spell {
		k := foldKey(sp)
		if cls[k] == nil {
			cls[k] = map[string]bool{}
		}
		cls[k][sp] = true
	}
	multi := false
	for _, set := range cls {
		multi = multi || len(set) >= 2
	}
	if multi {
		h.label("class-with-two-or-more-spellings")
	}
	if len(cls) >= 2 {
		h.label("two-or-more-classes")
	}
	var st spellStats
	// non-trivial: a request made after everything of its class was released or
	// had failed (the "forgotten, dial afresh" clause) during the generated steps
	st.nontrivial = h.labels["request-after-everything-of-the-class-was-released-or-failed"]
	for l := range h.labels {
		st.labels = append(st.labels, l)
	}
	st.labels = append(st.labels, nameLabels(sc.Spell, true)...)
	return st, nil
}

// runSpell executes sc in a bubble of its own.
func runSpell(t *testing.T, sc *SpellCase) (st spellStats, err error) {
	defer func() {
		if r := recover(); r != nil {
			if err == nil {
				err = newVerr("deadlock", "goroutines of the case remain blocked after every dial finished and every connection was closed: %v", r)
			}
		}
	}()
	defer vstat.Watchdog(20*time.Second, 5*time.Second)()
	synctest.Test(t, func(*testing.T) {
		defer func() {
			if r := recover(); r != nil {
				err = newVerr("panic", "panic on the scenario goroutine: %s", describePanic(r))
			}
		}()
		s, v := runSpellBubble(sc)
		st = s
		if v != nil {
			err = v
		}
	})
	return st, err
}
