"""Per-property configuration of the driver: which engine package, which test
functions (parts), how many generated cases per tier and in how many parallel
processes, and the stated non-triviality rule that the engine evaluates per case."""

SYNCTEST_ASSUMPTION = ("engine binary is built with go1.26.8 (testing/synctest virtual time); /repo's own go.mod says go 1.22, "
                       "so production timer-channel semantics differ; the code under test only uses NewTimer/Reset/Stop/Sleep")
COMMON = ["the harness module replaces github.com/openconfig/gnmi with /repo's working tree, built with -tags verif",
          "rapid v1.3.0 generators; every random choice is a function of VERIF_SEED",
          "every rapid case also draws the process's glog verbosity (-v 0-3, recorded in the replay file): the code inside `if log.V(n)` blocks runs in about half of the cases (label glog-verbosity>0)"]

CHECKS = {
    "C10": dict(
        engine="ctreeprop",
        technique=("deterministic gate schedules (testing/synctest + verifhook point ctree.add.upgrade) and free-running recorded histories under the race detector, "
                   "both judged by a history checker: porcupine linearizability against a node-identity (generation-aware) sequential model of the tree, "
                   "an interval rule for Query/Walk, a structural deadlock test on goroutine dumps, and race reports classified by their pair of top gnmi frames; "
                   "every exported method of the tree (also Get, Value, Children, IsBranch, String, the Reset idiom Children+Delete) is invoked on the root, on sub-tree nodes a fresh Get returns and on retained nodes, "
                   "concurrently with structural writers, under interval rules for Children/IsBranch/Value and a brute-force sequential-order check on small histories; "
                   "value-dependent conditional deletes against writers that move the truth of the condition from leaf to leaf (invariants every sequential order keeps: at least one / at most one leaf matches at every instant), "
                   "free-running over thousands of aligned rounds and with the delete parked inside its condition callback"),
        level_text=("Gate part: 2-4 threads whose Adds share a not-yet-existing branch; an Add is parked between dropping the node's read lock and requesting its write lock "
                    "(ancestors still read-locked) while the other threads add / look up / query beneath the same node (and delete, when the parked thread holds no lock), then released; "
                    "the schedule is part of the generated data, every step runs to quiescence, the recorded history (parked Adds span their window, everything else is atomic, "
                    "every query is a snapshot) must be linearizable including the final content; additionally every Add that returned nil is present unless overwritten/removed by a later or "
                    "overlapping operation, and an Add that returned an error left no trace. "
                    "Stress part (-race): histories of 2-16 goroutines x 20-60 operations (Add, GetLeafValue, GetLeaf, Leaf.Value/Update through retained handles, Query, Walk, Delete, DeleteConditional, "
                    "WalkDeleted) on paths of depth <=3 below three subtrees, every invocation/response stamped from one atomic counter; point operations, deletes and the final walk must be linearizable "
                    "(GetLeafValue = lookup + read inside one interval; an update through a stale handle is invisible in the tree); Query/Walk obey the interval rule (report what was present for "
                    "the whole duration, nothing that was absent for the whole duration, only values written to that path before the query returned); all goroutines join; no unlisted race class. "
                    "The stress part starts with one deterministic probe (DeleteConditional over three leaves whose condition callback schedules two sequential handle updates between its inspections), judged by the same history checker. "
                    "Accessor dimension (c10_access_test.go lists every exported method and the operation kind that invokes it): stress, burst / burst-race, pair-access and cbgate also call Children, IsBranch, Value, String, "
                    "Get + a read-only method on the sub-tree node (GetLeafValue, GetLeaf, Query, Walk, WalkSorted, Value, Children, IsBranch, String), the same on nodes retained from an earlier lookup (possibly pruned since) and the cache's "
                    "Reset idiom (Children of the root, then one Delete per name), on the root and below it, while other goroutines add and delete; one stress history in five lives below a single top-level element and burst / pair-access "
                    "scenarios start from a root that is a one-element branch, empty, emptied again or a leaf, so that deletes of everything / of the last element and the next Add take the root through its zero state again and again "
                    "(also with several deleters queued for the root lock and a refill right after the delete). Judged: a panic on any goroutine is a violation with the scenario; all goroutines join; no race report; "
                    "Children returns only names that had a leaf below them at some instant of the call and every name that had one throughout, IsBranch / Value are consistent with some instant, String parses back into leaves that obey the "
                    "interval rule, sorted order and (on the root) delete atomicity; on burst / pair-access / cbgate histories Children / IsBranch / Value take part in the sequential-order check (one atomic step on the root, lookup + read otherwise). "
                    "Move family (part pair-move, c10_pairmove_test.go; cbgate profile move-vs-conditional-delete): 2-4 hot leaves below one branch of which some satisfy the condition of the conditional deletes (the stored int is even; "
                    "which write makes a leaf match is generated data), surrounded by 0-256 bystander leaves nobody writes (they widen a scan; half of them sort between the hot leaves); a mover rewrites the hot leaves one after the other - "
                    "Add on the existing leaf or Leaf.Update through a handle - in an order that keeps an invariant in every sequential order: make-then-break (at every instant at least one leaf matches: a conditional delete over them "
                    "cannot remove nothing), break-then-make (never two: it cannot remove both, nor report two values that never matched together), rotate over three leaves, two movers, generated rewrites, the mirrored predicate; "
                    "against DeleteConditional / WalkDeleted (rarely Delete) with subtree / glob / everything patterns, optionally sweeping twice, a second deleter, a reader or a third writer. pair-move runs every scenario for "
                    "450-10000 aligned rounds (fewer the more bystanders) on persistent racers, every round judged through its canonical form (the result of every operation - removed paths / reported values, nothing removed included - the final "
                    "content and the real-time precedence between operations; first occurrence of a form and one round in 4096 by porcupine against the model, in which a delete removes exactly the selected leaves that satisfy the condition "
                    "in one step, and by the differential oracle). In cbgate the delete parks inside its k-th condition call while the mover makes a leaf the delete inspected and kept match and then an uninspected leaf stop matching. "
                    "Bounded exploration of schedules: the gate part is exhaustive in nothing, the stress part sees only schedules the Go scheduler produces."),
        level_note=("trusts the ~600-line history judge (sequential model + interval rule) and porcupine v1.3.0; the whole history is judged exactly when porcupine finishes within 400 ms, otherwise "
                    "(1-3% of histories) on its three per-subtree projections, which is sound but does not demand that a delete spanning subtrees takes effect in all of them at one instant "
                    "(label judged-on-subtree-projections counts them); a porcupine timeout on a projection is inconclusive, never a violation; "
                    "intervals handed to porcupine are narrowed only by order every legal explanation must have (unique values identify their writer); "
                    "the deadlock verdict is structural (all live workers waiting for sync locks inside ctree, identical in two goroutine dumps 5 s apart), the wall clock only decides when to look; "
                    "stress schedules cannot be reproduced: replay files hold the recorded history and a replay re-judges it (race classes with a minimal probe re-run the probe in a child process)"),
        rule=("gate: a case is one schedule (0-2 initial leaves, 2-4 threads x 1-4 ops, 2-24 run/release steps, optional drain); non-trivial = a thread was parked in the upgrade window while another "
              "thread's Add beneath the same node completed. stress: a case is one recorded history; non-trivial = >=2 operations of different goroutines on overlapping paths "
              "(one a prefix of / matched by the other, or two Adds beneath a common first-level branch) whose invocation intervals overlapped; distinct = distinct hash of the scenario / of the recorded history. "
              "open-finding classes understood by the engine: race-leaf-update-vs-delete (D6; alias race:ctree.(*Leaf).Update|ctree.(*Tree).internalDelete) and "
              "conditional-delete-not-atomic-vs-handle-update: while listed open, handle updates are serialised against (conditional) deletes by a harness lock and every prevented overlap is counted in excluded_known. "
              "pair-access: a case is one scenario (root state, 2-4 racers with at least one accessor and one mutator of the root's state) executed for thousands of rounds; non-trivial = two different outcomes were observed or operations of two racers overlapped; "
              "labels access:<method>:<root|sub-node>[:overlaps-removing-delete|:overlaps-delete-that-emptied-the-tree|:overlaps-successful-add], access:retained-node:<kind>, access:reset-idiom-delete, profile:single-subtree, state:<root state> show what was exercised. "
              "pair-move: a case is one scenario (shape of the movers' programs, delete kind and pattern, bystanders, who leads, skew) executed for its rounds; non-trivial = two different outcomes were observed or operations of two racers overlapped; "
              "labels shape:<make-then-break|break-then-make|rotate|two-movers|free>[/mirrored], invariant:<...>, mover-writes:<add-on-existing-leaf|handle-update|add-and-handle-update>, bystanders:<n>, deleter:<kind>, delete-pattern:<...> say what was generated, "
              "observed:delete-overlaps-every-write-of-a-mover and observed:overlapping-conditional-delete-removed:<nothing|one-leaf|several-leaves> what the rounds reached; cbgate: profile:move-vs-conditional-delete, "
              "parked-delete:kept-leaf-made-matching[:same-thread-makes-uninspected-leaf-not-matching-next], parked-delete:uninspected-leaf-made-not-matching"),
        assumptions=COMMON + [SYNCTEST_ASSUMPTION,
                              "stored values are non-nil ints, unique per write (nil is the tree's 'empty' sentinel); Add/Get paths contain no '*'",
                              "gate part: a step that would need a lock held by a parked thread is skipped and counted (sync.RWMutex waits are invisible to synctest.Wait); no delete is scheduled while a parked thread holds an ancestor's read lock",
                              "stress part: workloads are a function of the seed, schedules are the real scheduler's; handles are never taken on the root path and never updated when they designate a branch node; the stress part performs no operation on the root path itself (C09 covers root leaves sequentially)",
                              "visit callbacks do not call back into the tree (documented precondition of Query/Walk)",
                              "writers (Add, Delete, DeleteConditional, WalkDeleted) are invoked on the root only: no caller in /repo writes through a node obtained with Get, and 'deletes prevent all other concurrent access' is promised for the tree they are called on; "
                              "read-only methods are also invoked on sub-tree nodes (non-nil receivers, except Value / IsBranch / Children / String, which accept nil); the stress part reads the root (Children, IsBranch, Value, String) but still writes no value at the root path"],
        parts=[
            dict(name="gate", run="TestC10Gate", checks=dict(quick=1000, thorough=20000), shards=dict(quick=1, thorough=16)),
            dict(name="stress", run="TestC10Stress", rapid=False, race=True,
                 args=dict(quick=["-c10.histories=200", "-c10.stall=20s"], thorough=["-c10.histories=3000"]), shards=dict(quick=1, thorough=8)),
            dict(name="cbgate", run="TestC10Callback", checks=dict(quick=3000, thorough=20000), shards=dict(quick=1, thorough=8)),
            dict(name="burst", run="TestC10Burst", checks=dict(quick=1000, thorough=10000), shards=dict(quick=1, thorough=8),
                 args=dict(quick=["-c10.stall=20s"], thorough=[])),
            dict(name="burst-race", run="TestC10Burst", race=True, checks=dict(quick=250, thorough=3000), shards=dict(quick=1, thorough=4),
                 args=dict(quick=["-c10.burstname=burst-race", "-c10.stall=20s"], thorough=["-c10.burstname=burst-race"])),
            dict(name="pair", run="TestC10Pair", checks=dict(quick=36, thorough=300), shards=dict(quick=5, thorough=8),
                 args=dict(quick=["-c10.pairrounds=15000", "-c10.stall=20s"], thorough=["-c10.pairrounds=40000"])),
            # the pair machinery on another family: accessors (Children, IsBranch, Value, String, visits, lookups through / on retained sub-tree nodes,
            # the Reset idiom) against the root's transitions (emptying deletes, first Add into an empty tree, refill, queued deleters)
            dict(name="pair-access", run="TestC10PairAccess", checks=dict(quick=40, thorough=300), shards=dict(quick=2, thorough=8),
                 args=dict(quick=["-c10.pairrounds=8000", "-c10.stall=20s"], thorough=["-c10.pairrounds=30000"])),
            # the pair machinery on a third family: value-dependent conditional deletes against writers that move the truth of the condition between
            # leaves (rounds per scenario are the scenario's own: 10000 without bystander leaves down to 450 with 256)
            dict(name="pair-move", run="TestC10PairMove", checks=dict(quick=16, thorough=150), shards=dict(quick=2, thorough=8),
                 args=dict(quick=["-c10.stall=20s"], thorough=["-c10.movescale=2"])),
        ],
    ),
    "C01": dict(
        engine="e2e",
        technique="end-to-end property testing (rapid) over real processes: reference interpretation of generated target streams vs the client cache and vs gnmi_cli output; metamorphic agreement of three CLI invocation styles",
        level_text=("Each case generates a collector configuration (1-3 targets, shared or distinct requests and addresses) and per-target scripted streams (every scalar TypedValue arm, keyed paths, origins, "
                    "deprecated element encoding, overwrites, exact/subtree/glob deletes before and after sync), starts the gnmi_collector binary built from /repo against in-harness TLS gNMI servers, and observes through "
                    "(a) client.CacheClient STREAM subscriptions per target and for '*' and (b) the gnmi_cli binary, ONCE, display group and single, invoked with query flags, inline -proto and -proto_file, for the whole target and a subtree. "
                    "A per-target sentinel update sent last makes quiescence observable (the pipeline is FIFO per target). The observers' view minus the collector's own meta subtree must equal the reference exactly; "
                    "the three CLI invocations must print the same and equal the reference; each target must have received its configured request customised with its name. Dozens to hundreds of cases: bounded exploration."),
        level_note=("real processes and sockets: the only wall-clock judgement is the hang rule (sentinel not seen 20 s after the scripted stream was sent completely, twice in a row from scratch => violation; once => inconclusive case skipped); "
                    "the leaf set of each target is prefix-free by construction; binaries are built with the default go toolchain and -tags verif"),
        rule=("cases are (configuration, per-target stream); non-trivial = the streams carry >=2 value kinds, >=1 keyed or origin-bearing path and >=1 delete after the sync that removes a leaf; distinct = distinct hash of the scenario"),
        assumptions=COMMON + ["loopback networking is available in the sandbox", "collector and CLI binaries are rebuilt from /repo's working tree by the engine (go build -mod=readonly)"],
        parts=[dict(name="random", run="TestC01Random", checks=dict(quick=36, thorough=150), shards=dict(quick=1, thorough=8), timeout=dict(quick=600, thorough=1800)),
               dict(name="slow", run="TestC01Slow", checks=dict(quick=10, thorough=60), shards=dict(quick=2, thorough=8), timeout=dict(quick=600, thorough=1800)),
               dict(name="break", run="TestC01Break", checks=dict(quick=6, thorough=60), shards=dict(quick=4, thorough=8), timeout=dict(quick=600, thorough=1800),
                    args=dict(quick=["-c01.maxfill=6000", "-c01.maxstorm=4"], thorough=["-c01.maxfill=12000", "-c01.maxstorm=8"])),
               dict(name="resub", run="TestC01Resub", checks=dict(quick=8, thorough=80), shards=dict(quick=3, thorough=8), timeout=dict(quick=600, thorough=1800)),
               # targets configured with several addresses of which one answers gNMI (the others refuse / stay silent / close / speak no TLS / abort the handshake), short -dial_timeout
               dict(name="reach", run="TestC01Reach", checks=dict(quick=8, thorough=60), shards=dict(quick=2, thorough=8), timeout=dict(quick=600, thorough=1800)),
               # single SubscribeResponses above 4 MiB (a few very large values, plain or atomic; thousands of updates; one value above 4 MiB) in the sync burst and after it
               dict(name="size", run="TestC01Size", checks=dict(quick=8, thorough=60), shards=dict(quick=2, thorough=8), timeout=dict(quick=600, thorough=1800),
                    args=dict(quick=["-c01.maxcount=20000", "-c01.maxnoti=10"], thorough=["-c01.maxcount=100000", "-c01.maxnoti=24"])),
               # real time: every case holds its streams idle for 35-45 s (about a minute per case whatever the machine) - thorough only
               dict(name="quiet", run="TestC01Quiet", tiers=("thorough",), checks=dict(thorough=1), shards=dict(thorough=4), timeout=dict(thorough=1200))],
    ),
    "C12": dict(
        engine="ingestfuzz",
        technique="structured property-based fuzzing (rapid, hostile-shape generators) + native coverage-guided fuzzing of the wire bytes; oracle = no panic, rejected message leaves stored data intact",
        level_text=("Four in-process targets with fresh state per case: cache ingest (raw Cache.GnmiUpdate and the collector's stamping closure) followed by UpdateMetadata/UpdateSize/walk through MakeSubscribeResponse/"
                    "client receive/Reset/Remove; the Subscribe handler on an in-memory stream inside a synctest bubble (all its goroutines must finish); the gNMI client's real receive function into a CacheClient; "
                    "cli.QueryDisplay for every display and query type through a registered in-process client type. Generators are biased to the hostile shapes the property lists (empty/root paths, prefix-only, "
                    "meta and meta/<every name> with every value arm, missing val, deprecated value, element encoding, globs, atomic with/without prefix elements and with deletes, extreme timestamps, every mode, missing prefix/target/subscribe). "
                    "Any panic is a violation; if the cache returns an error, every leaf the message does not address must be byte-identical afterwards (the whole content for single-entry messages). "
                    "Thorough adds three native fuzz targets seeded with hostile constants. Bounded search, not a proof of absence."),
        level_note=("messages are round-tripped through proto.Marshal so only wire-representable shapes are fed; a panic on a goroutine started by the code under test kills the process and is attributed to the scenario announced last; "
                    "the manager's handling of nil/error responses is covered by C13"),
        rule=("cases are (pre-state, lifecycle calls, 1-5 hostile messages); non-trivial = a message passed the first validation of its entry point (known target / subscribe request with a target / update response) "
              "AND carries at least one hostile feature; distinct = distinct hash of the scenario"),
        assumptions=COMMON + [SYNCTEST_ASSUMPTION],
        parts=[
            dict(name="ingest", run="TestC12Ingest", checks=dict(quick=4000, thorough=40000), shards=dict(quick=2, thorough=8)),
            dict(name="subscribe", run="TestC12Subscribe", checks=dict(quick=4000, thorough=20000), shards=dict(quick=1, thorough=8)),
            dict(name="client", run="TestC12Client", checks=dict(quick=8000, thorough=40000), shards=dict(quick=1, thorough=8)),
            dict(name="life", run="TestC12Life", checks=dict(quick=150, thorough=2000), shards=dict(quick=4, thorough=8)),
            # one request served thousands of times at once on the real scheduler: panics that need two goroutines of the handler to meet
            dict(name="storm", run="TestC12Storm", checks=dict(quick=150, thorough=1500), shards=dict(quick=4, thorough=8)),
            dict(name="fuzz-notification", run="FuzzC12Notification", rapid=False, tiers=("thorough",), fuzz=dict(target="FuzzC12Notification", time=dict(thorough="60s")), timeout=dict(thorough=400)),
            dict(name="fuzz-subscribe-request", run="FuzzC12SubscribeRequest", rapid=False, tiers=("thorough",), fuzz=dict(target="FuzzC12SubscribeRequest", time=dict(thorough="45s")), timeout=dict(thorough=400)),
            dict(name="fuzz-subscribe-response", run="FuzzC12SubscribeResponse", rapid=False, tiers=("thorough",), fuzz=dict(target="FuzzC12SubscribeResponse", time=dict(thorough="60s")), timeout=dict(thorough=400)),
            dict(name="fuzz-life", run="FuzzC12Life", rapid=False, tiers=("thorough",), fuzz=dict(target="FuzzC12Life", time=dict(thorough="60s")), timeout=dict(thorough=400)),
        ],
    ),
    "C13": dict(
        engine="managerprop",
        technique=("property-based testing (rapid) of generated fault scripts and externally timed Remove/Reconnect/Add calls against the real manager.Manager "
                   "under virtual time (testing/synctest), with a per-target runtime monitor (trace predicates) over the totally ordered trace of callbacks, "
                   "dial/stream events and external calls; part real: the same manager over the REAL connection.Manager with scripted dial functions "
                   "(dial deadline and cancellation travel through the shared-dial machinery), judged by the same monitor plus bounded-virtual-time clauses; "
                   "the target configuration the manager passes on (dialer name with one scripted dial function per registered dialer, address lines and next hops, "
                   "credentials with scripted lookups, meta keys, shared configuration objects) is a generated dimension, and 'retried' is judged on the dial functions' own call record"),
        level_text=("Thousands (quick) to 320 000 (thorough) generated scenarios: 1-3 targets on shared or distinct addresses, each with a script of up to 6 "
                    "connection attempts (dial refused / hanging until cancelled or until Config.Timeout / answering after a delay; stream constructor failing; Send failing; "
                    "0-5 messages - update, sync, deprecated error response, response without any arm - each after 0-7 s of silence, updates optionally consumed by a slow "
                    "Update callback; then stream error, io.EOF or silence), a healthy stream once the script is exhausted, receive timeout off / Config.ReceiveTimeout / "
                    "per-target meta receive_timeout (valid, unparsable, '0s'), production retry delays (1 s / 1 min) or smaller generated ones, jitter 0 (85 %) / 0.2 / 0.5, "
                    "ConnectError+MonitorError set or nil, request template with or without a prefix and shared by all targets, and 0-7 external calls at generated virtual "
                    "instants (Remove, Reconnect, Add of a managed target = duplicate, Add of a removed target = re-add, Remove of a removed or never-added name, Reconnect of "
                    "an unknown name), a tail of 0-3.5 retry bounds, Remove of everything still managed, and a silence window of 10 x RetryMaxDelay x (1+RetryRandomization). "
                    "The harness sleeps to the instant, waits for quiescence (synctest.Wait), acts, waits again; every callback, every Connection/done/stream-open/Send/Recv call "
                    "and return, and every external call and return is appended to one trace. The monitor demands per target: no callback after a Remove of the target has "
                    "returned (until a later Add is called) nor for a never-added name; Connect only when the current stream has handed over >=1 message, at most once per stream, "
                    "never while an ended stream still waits for its Reset or the previous session is open; Update/Sync only inside a session and equal, position by position, to the "
                    "update/sync messages Recv handed over on that stream (identity by notification timestamp), all delivered before the Reset; Resets == streams whose Recv failed "
                    "(error, EOF, cancellation), each before any later Connect and none missing at the end; after every failure of a managed target (dial error, open error, Send "
                    "error, Recv error) the next Connection call starts no later than RetryMaxDelay*(1+RetryRandomization) and no earlier than RetryBaseDelay*(1-RetryRandomization) "
                    "- or the target's Remove is called within the bound; no Recv call is left waiting longer than the target's effective receive timeout; a Reconnect issued while "
                    "Recv is blocked ends that stream at the same instant; duplicate Add and Remove of an unmanaged name return an error and nothing else happens at that instant; "
                    "the request sent is the template with the target's name in its prefix and the shared template is never modified. "
                    "Sensitivity: 22 seeded manager mutants (no Reset on EOF / when cancelled / unless connected, Connect at stream open / after the first update / once per target, "
                    "Remove not waiting or cancelling late, retry loop stopping, no fresh context after a forced reconnect, double Reset, delivery in a goroutine, reordered / dropped "
                    "deliveries, duplicate Add replacing, unknown Remove accepted, MaxInterval not applied (2 variants), delay/1000, no receive-timeout goroutine, Reconnect a no-op, "
                    "template customised in place) are all reported within 30 cases on 3 seeds and their shrunk replays fail again. Bounded exploration, not a proof. "
                    "Part real (real_scenario.go, real_run.go): manager.Manager over connection.NewManagerCustom (the real shared-dial connection manager, wrapped only to record "
                    "Connection calls and returns) whose dial function follows a per-ADDRESS script, one step per dial made to the address: ok / refused at once, hang = block until the "
                    "context handed to the dial ends (deadline or cancellation) and fail with its error (grpc.WithBlock against a dead address), slow-ok / slow-refused = block 10 ms-100 s "
                    "(shorter or longer than the dial timeout) unless the context ends first, late-ok = hand back a connection although the context has ended; Config.Timeout 0 / 301 ms / "
                    "2 s / 10 s / 60 s; 1-3 targets all on one address, all distinct or mixed, some added late by an event; stream scripts per target as before (Subscribe stream stays the "
                    "in-memory double); Remove / Reconnect / Add (duplicate, re-add, late first add) at generated instants, landing while the target's Connection call is outstanding as the "
                    "dial's starter or as a waiter on another target's dial, in backoff, or mid-session. Clauses on top of the monitor: with Config.Timeout > 0 no Connection call of the manager "
                    "stays outstanding longer than Config.Timeout (a dial that outlives the dial timeout is a failed attempt; the monitor then demands the retry within the backoff bound, so the "
                    "gap between attempts is bounded by dial timeout + backoff); every Remove, run on its own goroutine, has returned within dial bound + largest retry delay of virtual time "
                    "(otherwise 'remove-never-returns'; the case is then wound down by failing every pending dial). Sensitivity of this part: detaching the shared dial from its starter's "
                    "context (context.WithoutCancel, with or without re-attaching the deadline), a 100x dial timeout, a retry loop that gives up after DeadlineExceeded are reported within 5 "
                    "cases; a connection manager that detaches the dial but lets waiters honour their own context passes. "
                    "Target configuration (config.go; parts real and random): every field of *tpb.Target the manager reads or passes on is drawn per target - dialer: default / one of "
                    "0-2 named dialers registered through connection.NewManagerCustom / a name that is not registered; in part real every registered dialer is a dial function of its own "
                    "with its own script per address (Scenario.NamedDials), targets naming different dialers share addresses; addresses: 1-3 lines with 0-2 further hops each, starting with "
                    "one next hop or (part real) with several, so that one attempt makes several Connection calls in map order; credentials: none / username+password / username+password_id "
                    "with a scripted Config.Credentials.Lookup per attempt (ok, failing, empty password) / username alone / password_id with Config.Credentials nil; meta: further keys, "
                    "including the ones the manager generates itself (target, username, password, address, addresses), receive_timeout values that set no timeout in part real; the same "
                    "*tpb.Target object handed to every Add of a name or a copy per Add, one object shared by two names. Additional clauses: (part real, checkFreshDials) every error answer "
                    "of the connection manager to a Connection call of the manager must be the failure of a dial function call to that address that ENDED between the call and the answer "
                    "(virtual instants) - an answer without one is the remembered failure of an earlier attempt, class retry-without-dial, however many ConnectError reports there are - except "
                    "when the context of the call had ended or the error is 'no such dialer' on an address an unregistered dialer name is configured for; a failed credentials lookup is a failed "
                    "attempt and a lookup begins the next one (same backoff window); Connection calls to distinct next hops at the instant the previous hop failed, without an error callback in "
                    "between, are one attempt; a target that stays managed longer than the retry bound after its Add without any attempt having started is reported (no-attempt-after-add; also "
                    "after Remove + Add). With every failure followed by a new Connection call within the backoff bound, this is what makes a target connect once its scripted dials succeed. "
                    "Sensitivity: connection entries keyed by dialer+address but evicted by bare address after a failed dial (seeded C13-P), no eviction of failed dials of named dialers, a retry "
                    "loop that parks after a failed credentials lookup, Add refusing a configuration object already in use, a connection manager that never answers for an unknown dialer are "
                    "all reported in the quick tier."),
        level_note=("trusts the ~350-line monitor (unit-checked on hand-made traces: TestSelfJudge) and the in-memory doubles (ConnectionManager handing out an idle "
                    "grpc.NewClient connection that is never used, scripted gpb.GNMI_SubscribeClient whose Recv/Send/dial return ctx.Err() as soon as their context ends, "
                    "target attribution through the outgoing metadata key 'target' the manager sets); external calls land only at quiescent points of virtual time (including inside "
                    "a slow Update callback), interleavings inside one instant are the Go scheduler's and are not enumerated; a refused call's 'changes nothing' is judged by the "
                    "absence of any trace event between two quiescent points; TestSelfDeterminism confirms two runs of one scenario give identical per-target traces "
                    "(jittered multi-target cases excepted: the backoff library draws from the global math/rand source, seeded per case via GODEBUG=randseednop=0)"),
        rule=("cases are scenarios (retry parameters, 1-3 target scripts, 0-7 timed external calls, tail); non-trivial = at least one stream whose Recv fails after it handed "
              "over >=1 message (not counting streams ended by the harness's final clean-up Removes) AND a generated Remove or Reconnect that lands mid-session "
              "(Connect reported, stream alive, Recv blocked or Update callback running) or mid-backoff (failure seen, next Connection call not yet started); "
              "distinct = distinct hash of the scenario; real: non-trivial = a dial function that did not answer at once AND (a dial ended by the manager's dial deadline OR a generated "
              "Remove / Reconnect / Add landing while a Connection call of its target - for a fresh Add: a dial to its address - is outstanding), OR a dial function of a named "
              "dialer called again for an address after a call of it for that address had failed; labels dialer=*, dialfn-of-dialer:*, redial-after-failed-dial:*, addresses=*, "
              "cred=*, cred-lookup-*, meta-keys, config-object-* show the configuration dimension"),
        assumptions=COMMON + [SYNCTEST_ASSUMPTION,
                              "one next hop per target outside part real (createConn tries a target's next hops in map order, which makes traces irreproducible; in part real the verdicts do "
                              "not depend on the order, a replayed multi-next-hop case may take the other order); credentials lookups answer at once (parts random and real; held lookups: part overlap)",
                              "a 'retry' is a new attempt to reach the target: in part real a Connection call answered with an error counts only if a dial function call to the address ended in "
                              "failure while it was outstanding (the statement's 'retried' read on the dial functions' record; a connection manager that remembered failures for a while would be reported); "
                              "an attempt that fails on unusable credentials (username alone, password_id without Config.Credentials) is invisible to the harness and only the universal clauses apply to such a target",
                              "collaborators honour context cancellation promptly, as gRPC dials and streams do; Recv never returns (nil, nil)",
                              "callbacks return at once, except Update callbacks with a scripted cost; slow callbacks are never combined with receive timeouts: Remove holds the "
                              "manager-wide mutex while it waits for the target's goroutine, a receive-timeout goroutine calling Reconnect meanwhile waits on that mutex, and synctest "
                              "cannot advance virtual time past a mutex wait (in production the call merely waits)",
                              "a stream whose Send of the subscription request fails is not counted as an 'ended stream': the code reports no Reset for it and the monitor accepts 0 or 1 "
                              "(it never carried a subscription and no Connect was reported); a stream-constructor failure is no stream at all",
                              "'retried with backoff' is read as: next attempt within [RetryBaseDelay*(1-RetryRandomization), RetryMaxDelay*(1+RetryRandomization)] after the failure (1 ms slack); "
                              "'attempt starts' = the ConnectionManager is asked for a connection",
                              "a re-Add after Remove truncates that Remove's silence window at the Add (callbacks carry only the name); Removes without a later Add are observed for >= 10 x the largest retry delay",
                              "Reconnect of an unknown name is exercised but its return value is not judged (the statement is silent about it)",
                              "part real: dial functions return the moment the context they were given ends (as grpc.DialContext does); no receive timeouts and no slow callbacks there (a Remove that "
                              "waits for a shared dial holds the manager's mutex, see above); with Config.Timeout == 0 a dial that lasts until its context ends is generated on unshared addresses only: "
                              "connection.Manager.Connection documents that a caller waits unconditionally for a pending attempt to the same address, so a Remove of a WAITING target returns when the "
                              "starter's dial ends - after at most Config.Timeout when one is set (the starter's deadline), never otherwise; Remove's latency is not in the statement: it is only required "
                              "to be finite (dial bound + largest retry delay); connections left open at the end of a case are closed by the harness, not judged (C16)"],
        parts=[
            dict(name="random", run="TestC13Random", checks=dict(quick=2000, thorough=20000), shards=dict(quick=1, thorough=16)),
            dict(name="overlap", run="TestC13Overlap", checks=dict(quick=500, thorough=8000), shards=dict(quick=4, thorough=16)),
            dict(name="long", run="TestC13Long", checks=dict(quick=300, thorough=3000), shards=dict(quick=4, thorough=16)),
            dict(name="real", run="TestC13Real", checks=dict(quick=500, thorough=6000), shards=dict(quick=4, thorough=16)),
        ],
    ),
    "C18": dict(
        engine="clientprop",
        technique=("property-based testing (rapid) in virtual time: client.Reconnect(BaseClient|CacheClient) and the plain clients over a scripted client.Impl "
                   "inside one testing/synctest bubble per case, Close / context cancellation at a generated virtual instant, bounded-time and trace "
                   "predicates on the recorded history (a call that never returns = bubble deadlock or missed virtual deadline); plus an order-only "
                   "oracle for the real gNMI Impl against an in-process scripted gRPC server; "
                   "the Go shape of the registered transport double is a generated dimension of the virtual-time parts random / lifetime / entry (pointer, struct value, "
                   "struct value holding a slice / map / func / interface-with-slice, array, named func type, named map type - each under a client type name of its own; "
                   "same script, same oracles), and part real draws which exported constructor of client/gnmi made the transport (gnmi.New through type gnmi, or an "
                   "application-registered type that dials itself and wraps the connection with gnmi.NewFromConn) and judges Close of a PLAIN BaseClient / CacheClient "
                   "that finds the established stream of a quiet server with the structural hang verdict"),
        level_text=("Half A (virtual time): thousands (quick) to 320 000 (thorough) generated scripts of 0-6 connection attempts (constructor returns an Impl / fails / "
                    "parks until cancelled or the destination timeout / is 'deaf': a transport that does not watch its context, whose constructor takes its time and then "
                    "succeeds and whose stream keeps handing over its scripted messages after cancellation until the Impl itself is closed; Impl.Subscribe ok / error; 0-4 messages of 1-3 notifications with delays; then error, io.EOF, "
                    "ErrStopReading or block until closed/cancelled; later attempts connect and block) with generated RetryBaseDelay / RetryMaxDelay (randomisation 0), "
                    "Notification- or ProtoHandler, nil or recording callbacks. The stop action - Close, or cancellation of the caller's context followed by Close - is "
                    "issued at a generated instant aimed (by a prediction of the script's timeline) before Subscribe, during the initial or a later connect, between "
                    "connect and first message, while streaming, inside a backoff sleep, inside the constructor of a deaf transport, or inside the backoff after attempts that never "
                    "produced an Impl and before a retry over a deaf transport (in both the underlying client has nothing to close and only the context carries the news). "
                    "Judged exactly as stated: Subscribe and Close have both returned no later "
                    "than (latest of stop action, Subscribe call and - a deaf transport cannot be interrupted before it has an Impl - the return of the last underlying Subscribe over a "
                    "deaf transport) + current backoff interval, the interval being bounded by the never-reset exponential envelope "
                    "min(RetryBaseDelay*1.5^k, RetryMaxDelay) after k earlier backoffs (resets only shorten it); Subscribe of an unclosed reconnecting client never returns "
                    "and after every ended attempt whose retry falls due before the stop action a new attempt has begun within that interval; in the recorded trace "
                    "(begin/return of the underlying Subscribe, disconnect, reset, return) every ended attempt is followed by exactly one disconnect, every retry is "
                    "preceded by exactly one reset after that disconnect, none of them runs while an attempt is running; after Close returned the handler receives the "
                    "notifications of at most one further message, for every client kind (exercised by plain clients with 0-4 messages still buffered by the transport at "
                    "Close, the situation of TestClientUpdatesAfterClose, and by reconnecting clients over deaf transports, where a Close that does not wait for Subscribe "
                    "lets the whole stream through); the handler sees notifications in hand-over order. Half B (real sockets): the registered gNMI Impl under client.Reconnect "
                    "against an in-process grpc server sending 1-5 scripted connections (0-6 responses each: updates/deletes tagged connection/message/index, sync) that then "
                    "fail or end; judged on order only: the trace is cut at the disconnect callbacks, on every stream that delivered anything Connected is first, the rest is "
                    "exactly one scripted connection's notifications message by message in the order sent, streams follow connection order. "
                    "Sensitivity: 19 seeded mutants (ReconnectClient.Close returning the underlying Close error before waiting for Subscribe, Close not cancelling before init, doubled backoff sleep, always sleeping RetryMaxDelay, lost ctx check after an attempt, disconnect twice / "
                    "never / after reset, reset after the retry / never, giving up after a failure, Close not cancelling, Close not closing the Impl, closed-check removed from the "
                    "read loop, backoff not reset after configuration, Connected once per client / after the first message, reversed updates, swapped messages) are each reported "
                    "within 20 cases and their shrunk replays fail again; an interruptible backoff sleep (an improvement) stays silent. Bounded exploration, not a proof."),
        level_note=("trusts the ~350-line scripted Impl (honours cancellation on entry and while waiting unless scripted deaf, Close always unblocks Recv, context checked before the closed flag so that the "
                    "outcome of ReconnectClient.Close does not depend on which of its two signals wakes Recv; a deaf stream notices cancellation only once it has nothing scripted left) and the trace wrapper around the underlying client; the harness acts only "
                    "at quiescent points (synctest.Wait) at instants offset by 3/7 ns from every scripted or backoff instant, so no two actions race; "
                    "the backoff envelope is computed with the same backoff library from the documented parameters; the reset policy of the retry loop is not judged; "
                    "windows inside one call (Close between the Impl being created and being published by BaseClient.Subscribe) are not reachable without gates; "
                    "half B judges no timing: completion is awaited by counting handler deliveries and the arrival of the first unscripted connection, a 30 s real-time guard "
                    "whose expiry is recorded as an inconclusive case (note + skip), never as a violation; updates-before-deletes inside one message is not judged"),
        rule=("half A: cases are (client kind, handler kind, wrapper, retry delays, query timeout, script of attempts, Subscribe instant, stop kind, stop instant); "
              "non-trivial = Close (not cancellation) on a reconnecting client lands inside a backoff sleep or between connect and first message after at least one "
              "reconnect, as observed in the recorded history; half B: cases are (client kind, 1-5 scripted connections); non-trivial = at least two (re)connected streams "
              "delivered data; part real additionally counts as non-trivial a plain client whose established, held-open stream was ended by Close alone and whose "
              "Subscribe was awaited without any cancellation (label plain-close-while-streaming-awaited-without-cancel); transport shapes and constructors show as "
              "labels impl-shape:* / ctor:*; distinct = distinct hash of the scenario"),
        assumptions=COMMON + [SYNCTEST_ASSUMPTION,
                              "the Impl's Close unblocks its own Recv (as closing a gRPC connection does); it honours cancellation of the context it was created with, except transports scripted deaf, "
                              "which ignore it while connecting and while they have scripted messages or a scripted end left (client.Impl / InitImpl do not promise to watch the context); "
                              "an Impl that neither ends, nor watches its context, nor is ever closed can hang any client and is not generated",
                              "while a deaf transport is connecting there is no Impl to close, so the termination bound counts from the return of that underlying Subscribe "
                              "(the unchanged client does not close the late Impl but lets its stream run to its scripted end before Subscribe and Close return); "
                              "a deaf transport under a client that was closed or cancelled BEFORE Subscribe was called is not generated (Close has then returned legitimately and the "
                              "unchanged client still runs one attempt on the cancelled context, which only a context-watching transport refuses)",
                              "RetryRandomization is 0 in every case (jitter uses the global math/rand); 1 <= RetryBaseDelay <= RetryMaxDelay <= 11*RetryBaseDelay",
                              "a plain BaseClient/CacheClient is only closed once Subscribe has produced an Impl (Close before that is documented to return ErrClientInit and stop nothing); "
                              "Close before Subscribe and during the initial connect are exercised on the reconnecting client",
                              "cancellation of the caller's context is judged like Close for the return of Subscribe (the quantifier of the property lists it)",
                              "half B runs over loopback TCP in real time with RetryBaseDelay 1 ms / RetryMaxDelay 2 ms",
                              "a nil callback of client.Reconnect is judged as absent: the discipline of the other callback is the one the property states, unchanged by the absence",
                              "part real: the context given to Subscribe ending (cancel function or deadline) is judged like Close for the return of Subscribe also over the real transport "
                              "(gRPC ends a stream whose context is done); Query.TunnelConn is one connection and is only generated for plain clients (a retry would find it used up)"],
        parts=[
            dict(name="random", run="TestC18Random", checks=dict(quick=3000, thorough=20000), shards=dict(quick=1, thorough=16)),
            dict(name="lifetime", run="TestC18Lifetime", checks=dict(quick=5000, thorough=20000), shards=dict(quick=1, thorough=8)),
            dict(name="entry", run="TestC18Entry", checks=dict(quick=4000, thorough=20000), shards=dict(quick=1, thorough=8)),
            dict(name="types", run="TestC18Types", checks=dict(quick=3000, thorough=20000), shards=dict(quick=1, thorough=4)),
            dict(name="content", run="TestC18Content", checks=dict(quick=3000, thorough=20000), shards=dict(quick=1, thorough=4)),
            dict(name="transport", run="TestC18Transport", checks=dict(quick=40, thorough=250), shards=dict(quick=1, thorough=4)),
            dict(name="real", run="TestC18Real", checks=dict(quick=300, thorough=1500), shards=dict(quick=1, thorough=4)),
        ],
    ),
    "C16": dict(
        engine="connprop",
        technique=("model-based property testing (rapid) with the schedule as generated data: every case runs in a synctest bubble, one step at a time to quiescence, "
                   "with a scripted dial function and the gates conn.dial.result / conn.wait; oracle = per-address generation model (pending dial, sharers, holders) "
                   "compared with returned connections, errors, dial-function invocations and connectivity state after every step; "
                   "Close() calls made by the scenario itself are recorded, so a manager close is told from a holder's close; "
                   "part closing: the last release as a call that takes time - ClientConn.Close() parked inside the bubble by a harness-owned name resolver / transport net.Conn whose Close() waits for a gate, "
                   "further calls started meanwhile, quiescence modulo lock waiters read from the goroutine states"),
        level_text=("Generated scenarios (1-3 addresses, 2-8 requester threads, 1-42 steps: Connection() calls with background / own / already cancelled contexts and an optional "
                    "unknown dialer name, releases, repeated releases, calls of the done func returned with an error, dial function told to return a fresh idle grpc.NewClient "
                    "connection or an error (at once or in a later step), context cancellations, parks and releases at conn.wait and conn.dial.result) are executed against the real "
                    "connection.Manager built with NewManagerCustom. After every step, with every goroutine of the bubble durably blocked: a request (other than one refused for its "
                    "already cancelled context or naming the unknown dialer) invokes the dial function iff its address has neither a pending dial nor a connection with unreleased "
                    "holders (never a second invocation while one is in flight or unpublished, always a fresh one after the last release or after a failed/cancelled dial); every request that joined a dial returns exactly its outcome (the same *grpc.ClientConn with nil error, "
                    "or nil with an error; never (nil, nil); not before the dial finished; not blocked after it finished); a connection is not SHUTDOWN while a sharer is still inside "
                    "Connection() or holds it unreleased, and is SHUTDOWN right after the step in which the last of them released it; double releases and done funcs of failed requests "
                    "return without panic and change none of this, in particular for a successor generation registered under the same address. A fixed epilogue opens every gate, lets "
                    "every parked dial succeed and releases every handle, so a leaked reference shows as a connection that is never closed. "
                    "Outside events (part outside; one scenario in three of random, wide and storm; every fourth stress round): holders and ex-holders call Close() on the connection they were handed "
                    "(while others hold it, before or after their own release, long after it was forgotten), a dial function hands back a connection it closed itself, Connect() / ResetConnectBackoff() / "
                    "server-side drops / virtual time take handed-out connections through CONNECTING, TRANSIENT_FAILURE, READY (a gRPC server inside the bubble) and back to IDLE, and one done func is "
                    "called from 2-4 goroutines at once. The model keeps one generation per hand-out: a connection that the scenario closed is excused from 'not SHUTDOWN while held' and a request for its "
                    "address may share it or dial afresh (neither is demanded), but every hand-out - also one dialled while the dead connection is still held - must stay open until ITS holders released it, "
                    "be closed and forgotten at ITS last release, and no release of another generation may touch it; connections the scenario did not close obey every clause in every connectivity state. "
                    "Arguments of Connection (part dialers on one or two addresses; a fifth of the requests of random, wide and outside): every request draws its own dialer name - the default, a second scripted "
                    "dialer, one that always fails at once, one that always succeeds at once, two names that are never registered, and (a fifth of the dialers cases) names this case's Manager was built without, "
                    "the default included - whatever is pending, held or was just released for its address, and its own context: background, already cancelled, cancelled by a later step, or with a deadline "
                    "in virtual time (2 s / 10 s / 1 h / already expired) that tick steps let expire while it waits, holds or after its release. What a request that names another dialer than the one its "
                    "address's pending dial / held connection went through is answered is not prescribed (the unchanged code shares; an error, at once or after the dial, and a dial of its own while none is in "
                    "flight are accepted); the clauses are judged per hand-out: a request answered with an error holds nothing (the connection is SHUTDOWN right after the last requester that was handed it "
                    "released it and the next request dials afresh; its done func changes nothing), one that was handed the connection is a holder like any other, never two dials in flight for one address. "
                    "Connectivity at the last release (part closing; also a dimension of stress, storm and convoy): the connection whose last holder releases it is IDLE, CONNECTING, TRANSIENT_FAILURE, READY "
                    "(a gRPC server inside the bubble / of the round over net.Pipe; also dial functions that only return READY connections, as a blocking dial does) or READY-then-dropped, and other calls race that release. "
                    "Part closing (stepwise, 1-3 rounds per case): the Manager's ClientConn.Close() of the last release PARKS - the resolver's or the transport's Close(), harness code, waits for a gate - while 1-5 further calls are "
                    "started one at a time: requests for the address being closed and for another one (background / own context, cancelled meanwhile), repeated releases, one more call of the parked done func, the last release "
                    "of the other address, releases by requests that returned inside the window. Whether such a call waits behind the Manager's lock or completes at once is not prescribed; demanded: a connection handed to a "
                    "request is never SHUTDOWN before that request released it (so a request made after the last release began is never handed the connection being closed), the released connection is SHUTDOWN when the release "
                    "has returned, at every quiescent point an address has at most one open connection - the one its holders hold, none without holders -, one dial in flight per address, every call returns once the gate is open, "
                    "afterwards releases one at a time close at the last one, done funcs again change nothing, the next request dials afresh. Stress: two rounds in five use READY connections, one in five CONNECTING / "
                    "TRANSIENT_FAILURE / mixed ones, holders yield between their looks at the state; storm: half of the cases have dial functions that connect (READY after a blocking dial, refused, hanging); convoy: the lever's "
                    "connection is READY in half of the cases and a fifth of the requests ask for the lever's own address while its last release is inside Close. "
                    "Bounded random exploration, not a proof."),
        level_note=("trusts the ~150-line generation model in connprop/run.go; 'closed exactly once' is decided as: open while held, SHUTDOWN at zero, forgotten afterwards, no later release "
                    "touches the successor (a second Close of the same *grpc.ClientConn is not observable through the exported API); calls are serialised by quiescence, the only "
                    "intra-call windows explored are the two gates (caller registered but not yet waiting; dial function returned but result unpublished); the scripted dial function "
                    "honours cancellation of the context it was given; a requester whose own context is cancelled may return (nil, error) at any time without being counted as a holder "
                    "(the documentation is silent; the real code instead lets it share the result, which is also accepted); the unknown dialer name is only used for an address with "
                    "nothing registered; a panic on the dial goroutine started by the code under test cannot be recovered and is reported by the driver as a crashed process with the "
                    "scenario written beforehand"),
        rule=("cases are scenarios (addresses, threads, step list); non-trivial = during the generated steps (epilogue excluded) some connection had >=2 holders that had returned from "
              "Connection() and not yet released it AND >=1 invocation of the dial function ended with an error or was cancelled and that failure was published; "
              "distinct = distinct hash of the scenario; the labels prefixed 'outside:' count the cases in which a connection was closed by a holder / by the dial function, was held in a "
              "non-idle connectivity state, or was released from several goroutines at once; "
              "dialers: cases are scenarios as above plus the set of names the Manager is built without; non-trivial = some request named another dialer than the one the pending dial / held connection "
              "of its address was started through and was answered (handed the connection, or an error); the labels prefixed 'dialer:' / 'ctx:' count the shapes (other name meets pending dial / held "
              "connection, unregistered name, deadline expired while waiting / holding / on the originator of a pending dial); "
              "closing: cases are 1-3 rounds (holders, connectivity state, gate, calls made meanwhile); non-trivial = in some round the Close of the last release was parked, the connection had left IDLE and a request for "
              "the address being closed was started meanwhile; labels 'close-parked-in-state-*', 'window:*' count the shapes; stress / storm / convoy: labels 'released-in-state-*', 'connections-*', 'connected:*', "
              "'request-for-the-address-whose-last-release-is-inside-close' count the connected variants"),
        assumptions=COMMON + [SYNCTEST_ASSUMPTION,
                              "connections are idle grpc.NewClient(\"passthrough:///<addr>\") clients with insecure credentials: no network; closed is observed as connectivity.Shutdown",
                              "who closed a connection is decided by bookkeeping: the scenario records each of its own Close() calls before making it; a connection found SHUTDOWN while held that the scenario did not close was closed by the manager. "
                              "After a scenario-side Close the documentation does not say whether the dead connection is shared until its last release (what the code does) or replaced: both are accepted; a request answered with an error there is not counted as a holder. "
                              "Transports of connected clients are refused, hang, or are net.Pipe connections to a service-less grpc.Server inside the bubble",
                              "one dialer (DEFAULT) per manager plus an unregistered dialer name; dial functions return either a non-nil connection or a non-nil error"
                              " (stepwise parts since the dialers dimension: up to four registered dialers - two scripted, one always failing, one always succeeding - and two unregistered names; the dialer name is drawn per "
                              "request for any address in any state; C16 does not say what a request naming another dialer than the cached attempt's is answered, so sharing, an error, and a dial of its own while no dial "
                              "for the address is in flight are all accepted, and a request naming an unregistered dialer must not reach a dial function)",
                              "in the stepwise parts every done func is called from one goroutine at a time (releases are separate steps; the stress, storm and convoy parts call one done func from several goroutines at once); in the stepwise parts races between Connection() and done() are serialised by "
                              "the manager's mutex and are explored only through the two gates",
                              "part closing: gRPC's ClientConn.Close() waits for resolver.Close() and for the transport's net.Conn.Close() (true of the vendored grpc v1.69.2; if it did not, the gate would not be reached, which the label "
                              "'gate-armed-but-close-did-not-reach-it' shows); while a Close is parked the harness reads goroutine states (runtime.Stack) to see that every goroutine is blocked, durably or on a lock - this selects and labels "
                              "the interleaving only, every verdict is taken from values that hold under any schedule"],
        parts=[
            dict(name="random", run="TestC16Random", checks=dict(quick=3000, thorough=30000), shards=dict(quick=1, thorough=16)),
            # free-running: the windows inside one release/acquire (last release racing a new request) on the real scheduler; holder-local oracles
            dict(name="stress", run="TestC16Stress", rapid=False, args=dict(quick=["-c16.stress=250"], thorough=["-c16.stress=3000"]), shards=dict(quick=1, thorough=8)),
            # the stepwise engine (exact model) at sizes beyond 32/64/128: addresses, pending dials, blocked requesters, holders
            dict(name="wide", run="TestC16Wide", checks=dict(quick=400, thorough=4000), shards=dict(quick=1, thorough=8)),
            # free-running in virtual time: up to 300 requesters / 375 addresses in one bubble, slow dials, cancellation at every phase, concurrent calls of one done func;
            # schedule-independent oracles, "every requester returns" decided by bubble quiescence
            dict(name="storm", run="TestC16Storm", checks=dict(quick=1500, thorough=20000), shards=dict(quick=1, thorough=8)),
            # real scheduler: calls (same done func from several goroutines, releases, requests) piled up in front of the Manager's lock, which a gated resolver Close keeps busy
            dict(name="convoy", run="TestC16Convoy", checks=dict(quick=600, thorough=8000), shards=dict(quick=1, thorough=4)),
            # the address strings themselves (every part also draws its address spellings: mixed case, ports/brackets/schemes, spaces, unicode, long, empty): spellings that differ
            # only in case requested in every order, stepwise in a bubble, under oracles that hold whether or not such spellings are one address
            dict(name="spell", run="TestC16Spell", checks=dict(quick=3000, thorough=30000), shards=dict(quick=1, thorough=8)),
            # real scheduler: requesters that ask again the moment they are told that their request failed, thousands of times per case; a request made after a failure was
            # returned (program order / atomic stamp) is never answered with that failure or an older one
            dict(name="retry", run="TestC16Retry", checks=dict(quick=30, thorough=60), shards=dict(quick=1, thorough=4)),
            # dial errors whose Error() method parks (harness call-back reached wherever the Manager formats the error; glog verbosity 0-5 is generated): waves of requests, each
            # launched the moment the previous wave has returned, more requests while a formatting call is parked
            dict(name="parked", run="TestC16Parked", checks=dict(quick=600, thorough=8000), shards=dict(quick=1, thorough=4)),
            # things that happen to a handed-out connection OUTSIDE the manager (stepwise, exact model; also sprinkled into random / wide / storm / stress): a holder or ex-holder
            # calls Close() on the *grpc.ClientConn it was handed, a dial function hands back a connection it closed itself, Connect()/ResetConnectBackoff()/virtual time take the
            # connection through CONNECTING / TRANSIENT_FAILURE / READY (in-bubble gRPC server over net.Pipe) / IDLE, one done func called from several goroutines at once
            dict(name="outside", run="TestC16Outside", checks=dict(quick=3000, thorough=30000), shards=dict(quick=1, thorough=8)),
            # every argument of Manager.Connection per request, combined freely on ONE address (stepwise, exact model; a fifth of the requests of random / wide / outside too): the dialer
            # name (default, a second scripted one, always-failing, always-succeeding, never registered, left out of this case's Manager) varies between the requests for the address
            # while a dial is pending, the connection is held or was just released; contexts background / already cancelled / cancelled later / deadline in virtual time (tick steps)
            dict(name="dialers", run="TestC16Dialers", checks=dict(quick=3000, thorough=30000), shards=dict(quick=1, thorough=8)),
            # the Manager as NewManager builds it (real grpc.DialContext over a silent in-process pipe), read off the channel's connectivity state
            dict(name="default", run="TestC16Default", checks=dict(quick=300, thorough=6000), shards=dict(quick=2, thorough=8)),
            # the last release as a call that takes time (stepwise in a bubble): ClientConn.Close() of a connection in any connectivity state (IDLE / CONNECTING / TRANSIENT_FAILURE / READY over net.Pipe to an
            # in-bubble gRPC server / dropped) parks in a harness-owned resolver or transport Close(); requests for that and another address, repeated releases, another call of the parked done func, cancellations
            # are started meanwhile; either-way oracle (waiting behind the lock and completing at once are both fine), holder-local and per-address invariants
            dict(name="closing", run="TestC16Closing", checks=dict(quick=800, thorough=10000), shards=dict(quick=1, thorough=8)),
        ],
    ),
    "C04": dict(
        engine="subprop",
        technique="property testing (rapid) with the schedule as generated data: synctest virtual time + quiescence + named gates; oracle = replay of responses vs cache, sync discipline, no invention",
        level_text=("Generated scenarios (writer history x 1-3 STREAM subscriptions x gate schedule) run against the real cache + subscribe.Server in a synctest bubble over in-memory streams: "
                    "subscriptions park at pre-register / registered / walk.begin / walk.end, writers park between tree write and feed, sends are granted credit by the scenario; the harness waits for "
                    "quiescence after every step. At check/drain points the replay of each subscriber's responses restricted to its query-matching paths must equal the cache's matching content; "
                    "exactly one sync, first for updates_only, every leaf of the start-time snapshot sent before it unless deleted meanwhile; every update response equals a submitted write; "
                    "the RPC ends only when the scenario ends it. Bounded exploration of the named windows; other preemption points are not explored."),
        level_note=("in-memory pb.GNMI_SubscribeServer double (context cancellation as gRPC, peer in context); one writer per target as in the collector; a Remove is not scheduled while a single-target "
                    "subscription to that target sits between its target check and its registration; updates_only subscriptions are owed only leaves changed after registration"),
        rule=("cases are scenarios of 6-40 steps; non-trivial = a convergence check was evaluated AND (a writer step ran while a STREAM subscription was parked between its start and its sync, "
              "or a writer was parked between tree write and feed while a subscription's walk was released); distinct = distinct hash of the scenario"),
        assumptions=COMMON + [SYNCTEST_ASSUMPTION],
        parts=[dict(name="random", run="TestC04Random", checks=dict(quick=2500, thorough=50000), shards=dict(quick=4, thorough=16)),
               # free-running: one writer goroutine per target + staggered subscribers on the real scheduler inside a synctest bubble,
               # no gates; convergence / single sync / no invention at the final quiescent point (synctest.Wait)
               dict(name="stress", run="TestC04Stress", rapid=False, args=dict(quick=["-c04.stress=400"], thorough=["-c04.stress=6000"]), shards=dict(quick=1, thorough=8)),
               # several writers updating their own leaves at the same instant against an idle subscriber, convergence judged at the quiescent point after every round
               dict(name="volley", run="TestC04Volley", rapid=False, args=dict(quick=["-c04.volleys=10", "-c04.volleyrounds=1500"], thorough=["-c04.volleys=60", "-c04.volleyrounds=4000"]), shards=dict(quick=3, thorough=8))],
    ),
    "C05": dict(
        engine="subprop",
        technique="property testing (rapid): ONCE/POLL rounds vs an independent matcher over the cache content, in a synctest bubble with gates around the walk",
        level_text=("Generated cache contents (1-3 targets, origins, keyed paths, atomic containers), subscription path sets with globs at every position, both invalid origin combinations, target '*', "
                    "ONCE or POLL with generated poll triggers, optional writers interleaved through gates. Against an unchanging cache each round's responses must be exactly the matching set with current values "
                    "(duplicates allowed), followed by exactly one sync; ONCE then ends with success and nothing further; POLL repeats per trigger issued after the previous sync and ends with success on client EOF; "
                    "invalid origin combinations end the RPC with an error; with writers, untouched matching leaves must be present and nothing that matches no path may be sent. Bounded exploration."),
        level_note="independent matcher gn.Matches + completePath written from the documentation; in-memory stream double",
        rule=("cases are scenarios of 8-30 steps; non-trivial = a completed round with a non-empty result whose subscription has a glob in a non-final position or targets '*'; distinct = distinct hash of the scenario"),
        assumptions=COMMON + [SYNCTEST_ASSUMPTION],
        parts=[dict(name="random", run="TestC05Random", checks=dict(quick=2500, thorough=30000), shards=dict(quick=4, thorough=16)),
               # ONCE calls / POLL rounds racing writers of the matched leaves on the real scheduler
               # answers of 9000-70000 leaves to a reader slower than the walk (each case costs seconds)
               dict(name="huge", run="TestC05Huge", checks=dict(quick=2, thorough=8), shards=dict(quick=2, thorough=8)),
               # ONCE / POLL against Cache.Query, the cache filled through both entry points (foreign.go)
               dict(name="foreign", run="TestC05Foreign", checks=dict(quick=3000, thorough=100000), shards=dict(quick=2, thorough=8)),
               dict(name="stress", run="TestC05Stress", rapid=False, args=dict(quick=["-c05.stress=30"], thorough=["-c05.stress=600"]), shards=dict(quick=2, thorough=8))],
    ),
    "C07": dict(
        engine="subprop",
        technique="property testing (rapid): trace monitor over every Send under generated ACL tables, plus convergence of the authorised view",
        level_text=("Generated user x target permission tables (and users for whom per-call authorisation fails), all modes, single-target and '*' subscriptions, histories over 2-4 targets with deletes, Reset and Remove. "
                    "Monitor: no response whose prefix target the caller's ACL denies ever passes Send; a denied single target ends the RPC with PermissionDenied and no Send; failed per-call authorisation ends it with "
                    "Unauthenticated and no Send; the replayed view restricted to authorised targets converges to the cache (so dropping everything does not pass). Bounded exploration."),
        level_note="ACL double implements subscribe.ACL/RPCACL from the table; user identity travels in the stream context",
        rule=("cases are scenarios of 8-36 steps; non-trivial = a '*' subscription for which, after its sync, updates were fed both for a denied and for an allowed target; distinct = distinct hash of the scenario"),
        assumptions=COMMON + [SYNCTEST_ASSUMPTION],
        parts=[dict(name="random", run="TestC07Random", checks=dict(quick=2500, thorough=50000), shards=dict(quick=4, thorough=16)),
               # an all-targets subscriber denied a target of 10000-70000 leaves: snapshot and refreshes withheld completely (each case costs seconds)
               dict(name="huge", run="TestC07Huge", checks=dict(quick=2, thorough=8), shards=dict(quick=2, thorough=8))],
    ),
    "C08": dict(
        engine="subprop",
        technique="property testing (rapid) under virtual time: stall patterns via send credit; oracle = writer returns at quiescence, model of the coalescing backlog, exact virtual-time timeout",
        level_text=("Generated stall patterns (never / transient / permanent) over 1-3 STREAM subscribers and update bursts with deletes. Every writer operation is launched in a goroutine and must have returned at the next "
                    "quiescent point although subscribers are parked in Send and no virtual time has passed; free subscribers converge meanwhile; for stalled subscribers a model of the coalescing queue "
                    "(first-insertion order, one entry per pending leaf with newest value and duplicates = coalesced updates, one per delete, the item already in flight not pending) must equal the delivered sequence on resume; "
                    "a Send parked beyond the timeout ends that RPC with an error at exactly send start + timeout, a shorter stall never does. Bounded exploration."),
        level_note="the backlog model starts at a drain (queue empty, sender idle) and needs the streaming filter relation (decided by C06); exported queue size only bounded from above",
        rule=("cases are scenarios of 8-40 steps; non-trivial = while a subscriber was stalled a burst contained >=2 updates to one leaf (coalesced) and a delete; distinct = distinct hash of the scenario"),
        assumptions=COMMON + [SYNCTEST_ASSUMPTION],
        parts=[dict(name="random", run="TestC08Random", checks=dict(quick=2500, thorough=50000), shards=dict(quick=4, thorough=16)),
               # targets with more than 65536 leaves and subscribers that stall at once (each case costs seconds)
               dict(name="huge", run="TestC08Huge", checks=dict(quick=2, thorough=8), shards=dict(quick=2, thorough=8))],
    ),
    "C11": dict(
        engine="coalesceprop",
        technique=("exhaustive small-scope enumeration against a sequential queue model + gate-scheduled many-producers/one-consumer "
                   "scenarios (rapid) in synctest bubbles, decided by an interval (linearizability-style) checker and per-clause history oracles"),
        level_text=("Every sequence of <=7 calls over {Insert(a),Insert(b),Insert(c),Next,Len,Close} from one goroutine (335,922 sequences) is compared "
                    "call by call with a FIFO-of-distinct-items + duplicate-counter + closed-flag model (return values of Insert, Next, Len, IsClosed; "
                    "a call that blocks is detected as a bubble deadlock, not by a timeout). Concurrency: thousands of generated schedules with 1-6 producers "
                    "and one consumer, executed one step at a time to quiescence (synctest.Wait) with producers parked between the closed check and the "
                    "insertion and the consumer parked between the emptiness check and the blocking select, plus Close and context cancellation at generated "
                    "steps. Each recorded history must be explainable by the model with every call taking effect inside its invocation interval; conservation, "
                    "drain-before-closed, refusal after close and no-stuck-consumer (blocked in Next at quiescence with Len()>0, after Close, or after cancel) "
                    "are additionally checked directly on the history. Bounded exploration: exhaustive only inside the stated small scope, sampled schedules beyond it."),
        level_note=("trusts the 60-line queue model, the interval checker (cross-checked against the direct per-clause oracles on every case) and the placement of the two "
                    "schedule points in coalesce.go; the window a goroutine can be parked in is exactly the two named points, other preemption points inside Insert/Next "
                    "(between the locked insert and the token send) are not scheduled; one consumer only, as the property states; which ready case a select takes is chosen "
                    "by the Go runtime, so schedules in which several wake-up sources are ready at once are sampled, not enumerated (replays and shrink candidates are run repeatedly)"),
        rule=("cases are (exhaustive) all call sequences of length <=7 over a 6-call alphabet on a fresh queue from one goroutine, and (concurrent) generated "
              "scenarios = item sequences for 1-6 producers over <=3 items + a schedule of 1-48 step tokens {producer inserts next item (optionally parking at "
              "coalesce.insert.checked), release a parked producer, consumer starts Next (optionally parking at coalesce.next.empty), release consumer, Close, cancel "
              "consumer context} + a fixed epilogue that releases everything, closes and drains until the consumer is told 'closed' (optionally draining before the "
              "parked producers are released). non-trivial = some Insert of an item that was still pending was accepted (fresh=false) AND the scenario's own Close "
              "was performed while Len()>0; distinct = distinct hash of the call sequence / scenario"),
        assumptions=COMMON + [
            SYNCTEST_ASSUMPTION,
            "one consumer goroutine at a time (sequential Next calls, possibly with different contexts), any number of producers: the way subscribe.go uses the queue",
            "items are small ints (comparable, usable as map keys, as Insert requires)",
            "the choice among several ready cases of the select inside Next is made by the Go runtime and is not a function of VERIF_SEED; oracles accept every outcome the property allows, "
            "label/non-trivial counts of the concurrent part can therefore differ by a few cases between runs with the same seed",
            "an Insert that passed the closed check before Close() and completes after it did not 'complete before the queue was closed': it may be delivered, coalesced or never delivered; only a consumer that hangs is a violation there",
            "lock watch (class deadlock-on-lock): every case runs inside a synctest bubble and no goroutine outside a bubble ever holds a lock of the code under test; the moments at which the monitor "
            "looks are real time, the verdict is the goroutine states (nothing runnable, a lock waiter, unchanged at a second look); glog writes to files under -log_dir (the driver sets it)",
        ],
        parts=[
            dict(name="exhaustive", run="TestC11Exhaustive", rapid=False),
            dict(name="concurrent", run="TestC11Concurrent", checks=dict(quick=5000, thorough=40000), shards=dict(quick=1, thorough=16)),
            # long single-goroutine histories with backlogs past 16/32/64/128 pending items (storage growth, compaction, reuse after a drain)
            dict(name="large", run="TestC11Large", checks=dict(quick=3000, thorough=30000), shards=dict(quick=1, thorough=4)),
            # free-running producers/consumer on the real scheduler inside a bubble: no stuck consumer at quiescence, conservation, duplicate counts
            dict(name="stress", run="TestC11Stress", checks=dict(quick=60, thorough=200), shards=dict(quick=4, thorough=8),
                 args=dict(quick=["-c11.rounds=300"], thorough=["-c11.rounds=600"])),
            # the consumer parked between its emptiness check and its select while inserts complete, the queue is closed and another goroutine holds the queue's mutex
            dict(name="window", run="TestC11Window", checks=dict(quick=600, thorough=6000), shards=dict(quick=1, thorough=4)),
        ],
    ),
    "C20": dict(
        engine="fakeprop",
        technique=("property-based testing (rapid) of generated fake-target configurations: trace predicates over the emitted stream "
                   "(order / repeat count / range-or-list membership / timestamp step / sync placement), same-seed and reused-config "
                   "differential runs, observed both at UpdateQueue.Next and on an in-memory subscribe stream driven by fake/gnmi Client.Run"),
        level_text=("Tens of thousands (quick) to 800 000 (thorough) generated configurations of 1-8 values of every kind "
                    "(int/uint/double constant, uniform range, cumulative saturating range; int/uint/double/string/bool lists random or rotating; "
                    "string-list constant/rotating/random; delete; explicit sync) with repeat 0 or 1-6, unset or set timestamps, zero / periodic / random / wide "
                    "timestamp deltas, per-value and global seeds zero or not, disable_sync on/off. Every clause of the statement is a predicate evaluated on the "
                    "full emitted sequence (complete for bounded configurations, a prefix of sum(repeats)+2..24 for unbounded ones): non-decreasing timestamps; "
                    "exactly `repeat` emissions and then nothing (an unbounded value never lets the source end; in a prefix no value that still has emissions is "
                    "overdue); every emitted range value inside [minimum,maximum], every generated list value an option; every per-value timestamp step inside "
                    "[delta_min,delta_max]; on the wire the single sync marker follows the first emission of every value (none with disable_sync); two generators "
                    "from deep-equal configurations emit proto.Equal sequences whenever every value's random source has a configured non-zero seed; the caller's "
                    "configuration is structurally unchanged (up to the unset->empty timestamp block) and a second generator built from the same object emits the "
                    "same sequence. Sensitivity: 18 of 19 seeded mutants (ordering x3, repeat x2, clamp x4, step x2, sync x2, seeding x3, config aliasing, list) "
                    "are reported within 75 cases; the 19th only reorders values that share one timestamp, which no clause of the statement forbids. "
                    "Bounded exploration: no claim beyond the generated space."),
        level_note=("trusts the 300-line judge (unit-checked on hand-made traces) and the in-memory stream double (context + Send/Recv only, no gRPC); "
                    "cases run inside a testing/synctest bubble so that a generator seeding itself from time.Now() is replayable; "
                    "FixedQueue / fixed generator is not judged (its order is whatever the configuration lists); real delays (enable_delay) are not exercised"),
        rule=("cases are fake-target configurations (1-8 values, distinct paths) run through queue.New(false, seed, values) three times (fresh, deep-equal copy, "
              "reused object) and once through fake/gnmi Client.Run on an in-memory stream; a configuration is judged iff it satisfies every precondition "
              "fake.proto documents and Next never returned an error (about 1 case in 8 deliberately violates a precondition: it must be answered by an error or "
              "be left unexamined, never by a panic, and an error on a configuration without any violated precondition is itself a violation); "
              "non-trivial = judged, >=3 values of >=2 kinds (oneof arms), two different values whose emitted timestamp intervals intersect, and at least one "
              "value with bounded repeat > 1; distinct = distinct hash of the scenario"),
        assumptions=COMMON + [
            "all magnitudes (timestamps, timestamp deltas, int/uint range bounds and value deltas) lie within +-2^40, double range bounds within +-1e12: the generator's arithmetic is int64 "
            "and wider spans overflow (outside this domain, confirmed by hand: a uint range without deltas and maximum >= 2^63, an int range without deltas wider than 2^63-2, "
            "and a timestamp delta span of 2^63-1 panic in rand.Int63n; a double range -Inf..+Inf emits NaN)",
            "values rejected by the generator's own checks (negative timestamp or negative timestamp delta with repeat != 1, inverted bounds, initial value outside its range, empty option list, no kind) "
            "count as cleanly rejected, not as violations",
            "the first emission of a list value is the configured initial `value` (documented as 'only used to hold the value as it mutates') and need not be an option; membership is demanded from the second emission on",
            "for string-list values 'within the option list' means every element is one of the options (fake.proto: 'the set of strings which can be used')",
            "reproducibility is demanded when every value has a configured non-zero seed of its own or else the global seed is non-zero (fake.proto: repeatable 'if the seed is set in the corresponding Value')",
            "explicit sync values are only configured together with disable_sync (how every caller in the repository uses them), so with auto-sync every sync response is the injected marker",
            "order inside one timestamp is unconstrained (the statement only demands non-decreasing timestamps); starvation by an unbounded value with a zero timestamp delta is inherent in timestamp order and not judged",
            "session part: 'a generation of the stream' is what client.go defines - the generator built when Client.Run starts and, for POLL subscriptions, when a Poll arrives; the clauses are applied per generation "
            "with the configuration in force at that moment; a message a STREAM / ONCE subscription receives after its SubscriptionList is documented as an invalid event that is logged and skipped",
            "session part: a Poll that reaches a POLL subscription in the middle of a round is undocumented: any split of what follows into the rest of the old generation and one complete new generation is accepted",
            "numeric part: magnitudes are NOT confined to +-2^40 - range bounds, initial values, value deltas, option-list members and seeds are any int64 / uint64 / finite float64 (+-Inf as below), timestamp deltas any "
            "non-negative int64; the domain ends where the unchanged generator's own arithmetic ends: a span handed to rand.Int63n (maximum-minimum of a uniform int / uint range, delta_max-delta_min of a cumulative range "
            "and of a timestamp) is at most 2^63-2 (2^63-1 and more panic; the border 2^63-2 is generated); a stepped timestamp stays representable over the pulled prefix (timestamp + pulls*delta_max <= MaxInt64; "
            "reaching MaxInt64 exactly is generated); +Inf is a double maximum in both modes, -Inf a minimum only of cumulative ranges with a finite delta span, +Inf a delta_max only above a finite minimum, -Inf never a "
            "delta (the unchanged arithmetic computes Inf-Inf = NaN there); NaN is never a bound",
            "numeric part: where value+delta of a cumulative int / uint range is not representable the unchanged tree wraps and then clamps (a counter at its maximum may jump to its minimum): the statement only promises "
            "'within its configured range', and only that is demanded",
            "a bounded repeat count above 65536 is observed as a prefix, like an unbounded one: never more emissions than the count, and a source that ends before the count is reached violates the repeat clause",
        ],
        parts=[
            dict(name="random", run="TestC20Random", checks=dict(quick=10000, thorough=50000), shards=dict(quick=1, thorough=16)),
            dict(name="shapes", run="TestC20Shapes", checks=dict(quick=1500, thorough=6000), shards=dict(quick=4, thorough=16)),
            dict(name="edges", run="TestC20Edges", checks=dict(quick=3000, thorough=30000), shards=dict(quick=2, thorough=8)),
            dict(name="syncs", run="TestC20Syncs", checks=dict(quick=4000, thorough=30000), shards=dict(quick=2, thorough=8)),
            dict(name="session", run="TestC20Session", checks=dict(quick=2500, thorough=20000), shards=dict(quick=2, thorough=8)),
            dict(name="numeric", run="TestC20Numeric", checks=dict(quick=2500, thorough=25000), shards=dict(quick=2, thorough=8)),
        ],
    ),
    "C19": dict(
        engine="pathvalprop",
        technique=("property-based testing (rapid) against an independent reference index written from the documentation, "
                   "repetition against map-order randomisation, client->wire->server and scalar round trips, "
                   "relational oracle (total / symmetric / sound) for value.Equal; same oracles behind native fuzz targets on wire bytes; "
                   "stateful part: generated histories of calls and in-place changes over a pool of re-used message objects, every result judged against the reference conversion of the content at that call"),
        level_text=("Tens of thousands of generated gNMI paths (elem and deprecated element form, 0-6 elements, 0-4 keys each, arbitrary valid UTF-8 "
                    "incl. empty strings, '/', '*', '[') are indexed 64 times per build in five builds of the same path (keys inserted forward, reversed, rotated; "
                    "proto.Clone; marshal+unmarshal) and compared with a reference index computed from plain data without any Go map; CompletePath is compared "
                    "with the documented origin rules over all four origin combinations x prefix with/without elements; client queries of plain elements are "
                    "taken through gnmi client ToSubscribeRequest, proto.Marshal/Unmarshal and the server's path.CompletePath; every supported Go scalar type "
                    "(extreme ints, NaN/Inf/-0, invalid UTF-8, nested []interface{}) and a dozen unsupported types go through FromScalar/ToScalar; pairs of "
                    "TypedValues over every oneof arm, unset and nil (second = clone, single-field mutation, arm switch, independent) are checked for "
                    "no panic, Equal(a,b)==Equal(b,a) and Equal => same value. Bounded random exploration, not a proof. "
                    "Part history: sequences of 3-24 steps over 1-3 *gnmi.Path, 0-3 *gnmi.TypedValue, 0-2 client.Query and 0-2 Go slice objects that live for the whole case; "
                    "steps are calls (ToStrings, CompletePath - also with one object as prefix and path, or as prefix of one call and path of the next -, the query conversion, "
                    "FromScalar/ToScalar, Equal) and changes the caller makes in place between them (key value rewritten, key added/removed/renamed, element appended/truncated/renamed/replaced, "
                    "Elem slice replaced, origin/target changed, proto.Reset + Merge/Unmarshal of another path, content copied from or swapped with another pooled object, oneof arm switched, "
                    "payload rewritten inside the same wrapper, leaf-list elements rewritten/appended/dropped in place, a Go slice rewritten over its own storage); every result must equal the "
                    "reference conversion of the content the objects have at that call (a conversion is a function of content, never of object identity or call history), Equal/ToScalar "
                    "must answer the same for the same content within a history, and no call may modify its arguments; the code under test is only ever called on the pooled objects."),
        level_note=("trusts the 40-line reference index (refIndexSpec), the arm-wise 'same value' relation (sameValue: same arm and equal payload, floats and "
                    "decimals compared numerically so that +0/-0 and 10e-1/1e0 may be equal) and protobuf-go; Equal answering false for identical values "
                    "(JSON/any/ascii/proto_bytes, NaN, unset) is allowed by the property; FromScalar([]string) with invalid UTF-8 is accepted either way "
                    "(the statement does not decide it); native fuzzing runs without coverage guidance because the driver builds without -fuzz"),
        rule=("cases are: index = one generated path indexed with prefix=false/true, 64 repetitions per build x 5 equal builds; complete = one prefix/path pair; "
              "query = a client query of 1-3 paths of 0-5 plain elements; scalar = one Go value; equal = one ordered pair of TypedValues (nil allowed). "
              "non-trivial = (index, complete, fuzz-path) some elem carries >=2 keys whose name order differs from their insertion order; "
              "(query) some element contains '/'; (scalar) the value needs widening, is a slice, or must be rejected; "
              "(equal) the operands differ in exactly one field; (fuzz-value) two non-nil operands of the same arm that are different values. "
              "(history) a case is one sequence of calls and in-place changes on pooled objects; non-trivial = some object is converted, changed in place and converted again. "
              "distinct = distinct hash of the scenario, per part"),
        assumptions=COMMON + [
            "strings inside gnmi.Path / TypedValue string fields are valid UTF-8 (protobuf refuses to marshal anything else)",
            "operands of value.Equal are wire-representable (every operand is passed through Marshal/Unmarshal) or nil; nil elements inside a leaf-list are not generated",
            "plain query element = non-empty valid UTF-8 without whitespace and without any of [ ] \\ ; '/' allowed anywhere",
            "open-finding classes compiled into the engine: 'equal-nil-double' (one operand nil, the other a double_val) and 'query-elem-edge-slash' "
            "(the last element of a query path ends with '/'); each is excluded and probed only while known_findings.json lists it as open for C19",
        ],
        parts=[
            dict(name="index", run="TestC19Index", checks=dict(quick=15000, thorough=100000), shards=dict(quick=1, thorough=8)),
            dict(name="complete", run="TestC19Complete", checks=dict(quick=15000, thorough=100000), shards=dict(quick=1, thorough=8)),
            dict(name="query", run="TestC19Query", checks=dict(quick=20000, thorough=200000), shards=dict(quick=1, thorough=8)),
            dict(name="scalar", run="TestC19Scalar", checks=dict(quick=20000, thorough=200000), shards=dict(quick=1, thorough=8)),
            dict(name="equal", run="TestC19Equal", checks=dict(quick=30000, thorough=200000), shards=dict(quick=1, thorough=8)),
            # the same five oracles on large shapes: 5-10 keys per element, 50-300 elements, 6-60 query elements, 50-300 leaf-list values, 1-8 KiB strings
            dict(name="large", run="TestC19Large", checks=dict(quick=4000, thorough=40000), shards=dict(quick=1, thorough=8)),
            # histories over message objects: 3-24 calls and in-place changes on a pool of re-used path / TypedValue / query / Go slice objects; every result = reference conversion of the content at that call
            dict(name="history", run="TestC19History", checks=dict(quick=10000, thorough=100000), shards=dict(quick=1, thorough=8)),
            # free-running: 2-16 goroutines repeat their own conversions on shared and private inputs; every result must equal the result of the same call run alone
            dict(name="concurrent", run="TestC19Concurrent", checks=dict(quick=100, thorough=500), shards=dict(quick=4, thorough=8),
                 args=dict(quick=["-c19.rounds=300"], thorough=["-c19.rounds=1000"])),
            # the same part under the race detector: a data race report with a gnmi frame on one of its stacks is a violation
            dict(name="concurrent-race", run="TestC19Concurrent", race=True, checks=dict(quick=60, thorough=500), shards=dict(quick=2, thorough=4),
                 args=dict(quick=["-c19.rounds=60"], thorough=["-c19.rounds=200"])),
        ],
    ),
    "C06": dict(
        engine="matchprop",
        technique=("exhaustive small-scope enumeration of the (subscription path, update path) relation and of ctree.Query containment, "
                   "plus model-based property testing (rapid) of subscribe/unsubscribe/update sequences on match.Match and on the real subscribe.Server (synctest)"),
        level_text=("All 14 641 pairs (subscription path, update path) of length 0-4 over {a,b,*} are presented through Match.Update and through "
                    "subscribe.UpdateNotification with every split into prefix strings + entry path (update and delete entries), with two clients at the path and "
                    "removal once and twice: invoked iff compatible. All 2 197 triples (two registrations of one client + one path, length 0-2) check exactly-once for "
                    "1- and 2-entry notifications. For 678 trees of glob-free leaves (every single leaf of depth 1-4 over {a,b}, every prefix-free set of depth<=2, "
                    "every combination of 5 shapes under the four depth-2 nodes) x 121 queries, every leaf ctree.Query reports is offered to a subscriber registered "
                    "at the query (real code on both sides, no model). Tens of thousands of random sequences by up to 4 clients (AddQuery incl. duplicates, server-shaped "
                    "registrations, remove incl. repeated, Match.Update, UpdateNotification with 1-4 update/delete entries, keyed elements, deprecated element encoding) "
                    "are compared call by call with a set-of-registrations model; thousands of sequences of Subscribe RPCs / RPC ends / Server.Update on the real "
                    "subscribe.Server count offers per subscriber (responses + coalesced duplicates) and compare the subscription trie with the live subscriptions "
                    "after every step. Bounded exploration: exhaustive only inside the stated small scope."),
        level_note=("trusts the 10-line compatibility relation taken from the property statement, the harness's restatement of path.ToStrings (decided by C19) and of "
                    "the registration path rule (prefix target, origin, prefix elements, path elements); the match-level part re-implements the unexported "
                    "subscribe.addSubscription only as a generator of server-shaped registrations, the real one is exercised by the server part through "
                    "Server.Subscribe; a registration that outlives its RPC is unobservable through exported API (closed queue swallows the insert), so the server "
                    "part reads the unexported trie Server.m.tree by reflection, read-only, at quiescence; the state 'one of two handles for the same (client, path) "
                    "removed' is a don't-care (the property is silent, the server never produces it); the exhaustive, random and server parts use match.Match from one goroutine (concurrency is the in-flight part)"),
        rule=("exhaustive: cases are pairs (q, p) / triples (q1, q2, p) / (tree, query); non-trivial = the pair contains a glob on at least one side and both paths are "
              "non-empty (triples: two distinct registered paths both compatible; containment: a reported leaf reached through a glob or a shorter query); distinct = the pair "
              "(triple, tree+query). random/server: cases are operation sequences; non-trivial = some notification/update call sees >=1 compatible and >=1 incompatible "
              "live registration and a client with >=2 compatible registrations; distinct = distinct hash of the scenario"),
        assumptions=COMMON + [SYNCTEST_ASSUMPTION,
                              "path elements, key values, origins and targets are strings over {a,b,*} or (half of the scenarios) short strings containing '/', ':', '[', ']', '=', ',', ' ', NUL, the empty string and concatenations of those; only the exact string '*' is the wildcard, on either side",
                              "SubscriptionLists obey the gNMI origin rules (origin in the prefix or in the paths, not both; no prefix elements with a path origin)",
                              "server part: STREAM subscriptions on an empty cache with targets a, b and every x+joiner+y over {a,b} (38 targets); the target-delete notification (sole delete of '*' without origin, which closes single-target streams) is not generated",
                              "server part: requests may carry any value in the fields the server does not implement (proto3 enums are open: mode / encoding numbers the enum does not name included); the server is expected to accept such a request as it accepts the plain one"],
        parts=[
            dict(name="exhaustive", run="TestC06Exhaustive", rapid=False),
            dict(name="random", run="TestC06Random", checks=dict(quick=20000, thorough=100000), shards=dict(quick=1, thorough=8)),
            dict(name="server", run="TestC06Server", checks=dict(quick=4000, thorough=20000), shards=dict(quick=1, thorough=8)),
            dict(name="inflight", run="TestC06InFlight", checks=dict(quick=3000, thorough=12000), shards=dict(quick=1, thorough=8)),
            # the remove function of ONE registration called from 2-4 goroutines at once and again afterwards, while calls are in flight
            dict(name="multiremove", run="TestC06MultiRemove", checks=dict(quick=3000, thorough=12000), shards=dict(quick=1, thorough=8)),
            # container notifications (atomic or not: prefix + 1-5 members) against subscribers at / above / below the prefix on touched and untouched paths; match, server and real-cache layers
            dict(name="atomic", run="TestC06Atomic", checks=dict(quick=3000, thorough=16000), shards=dict(quick=1, thorough=8)),
            # table notifications of 1-1100 entries (sizes around 64 / 128 / 1024; atomic or not; updates and/or deletes) against subscribers at / above / below the prefix,
            # on rows, sibling rows, absent columns, with globs; match layer at every prefix cut, server and real-cache layers
            dict(name="size", run="TestC06Size", checks=dict(quick=1000, thorough=6000), shards=dict(quick=1, thorough=8)),
        ],
    ),
    "C17": dict(
        engine="targetprop",
        technique="model-based property testing (rapid): generated sequences of configuration loads against a plain-data reference model, with replay of the recorded handler calls; the shape of the consumer (every subset of the three callbacks, through every constructor) as a generated dimension, judged by the model's difference projected onto the registered kinds",
        level_text=("Tens of thousands of generated sequences of 1-12 Config.Load calls (optionally on top of NewConfigWithBase) are executed against the real "
                    "target.Config with recording Add/Update/Delete handlers and compared, after every load, with a reference model that keeps the last "
                    "accepted configuration as plain data: Load returns nil iff the configuration is valid and (there is no current configuration or the "
                    "revision is strictly greater than the current one); a rejected load ran no handler and left Current() unchanged; after an accepted load "
                    "Current() is the loaded configuration, the handler calls replayed onto the initial set (empty, or the base's targets) yield exactly "
                    "{name -> (target settings, referenced request body)} of Current(), a target whose settings and referenced request body are unchanged "
                    "received no call, and no name received two calls in one load. Bounded random exploration over small pools, not a proof."
                    " The shape of the consumer is a dimension of parts random, degenerate, edges and reload: target.Handler with every subset of {Add, Update, Delete} registered (all three "
                    "in about two thirds of the cases, each of the seven proper subsets - the empty one included - in 3-7%), handed to NewConfig, NewConfigWithBase(nil), NewConfigWithBase(base "
                    "without targets) or NewConfigWithBase(base with targets) (the package has no other constructor and no way to replace a callback later). For every accepted load the full "
                    "difference current -> loaded is computed on reference messages (Delete for a name that is gone, Add for a new one, Update for a name whose settings or referenced request "
                    "changed, nothing otherwise) and the calls actually made must be exactly that difference restricted to the registered kinds - every such entry announced once with the "
                    "settings and request of the loaded configuration, nothing else announced, unregistered kinds simply absent; a refused load calls nothing whatever is registered. The "
                    "replay oracle is applied only when all three kinds are registered."),
        level_note=("trusts the ~60-line reference (validity predicate, revision gate, replay map) and proto.Equal/proto.Clone for comparing messages; the "
                    "reference validity predicate is cross-checked against target.Validate on every generated configuration; replay is strict "
                    "(Add only for a name not in the set, Update/Delete only for a name in it, as the Handler documentation words them); "
                    "single goroutine, order of calls within one load is not constrained; loaded messages are never mutated after Load (Load keeps the caller's pointer)"),
        rule=("cases are sequences of 1-12 loads on a fresh target.Config (NewConfig, NewConfigWithBase(nil) or NewConfigWithBase(valid base)); every load is "
              "Load(nil), or a configuration obtained from the current accepted configuration (or from a complete random configuration) by 0-4 edits "
              "(request body edited / renamed / added / dropped; target added / removed / re-pointed / address, credentials, meta, dialer edited; instance id, "
              "config meta; invalid variants: empty name, nil target, no address, missing request, dangling request) over pools of 5 target names, 3 request "
              "names x 3 request bodies, 3 address sets, with a revision that is current+{1,2,3,0,-1,-3} or an absolute value (incl. int64 extremes). "
              "non-trivial = some accepted load changes a request body and re-points or removes a target in the same revision, or a rejected load lies "
              "between two accepted ones; distinct = distinct hash of the scenario"
              "; every case also carries the subset of Handler callbacks its consumer registers (labels consumer-*; partial-consumer-* and unregistered-<kind>-in-difference say "
              "through which constructor a proper subset was registered, that an accepted load kept an unchanged target silent, announced a registered kind, or had a difference "
              "containing a kind the consumer did not register)"),
        assumptions=COMMON + ["base configurations passed to NewConfigWithBase are valid (an invalid base is refused by the constructor and is not part of C17); part edges alone offers invalid bases and demands exactly that refusal",
                              "the caller does not modify a configuration message after handing it to Load / NewConfigWithBase",
                              "all three Handler callbacks are set (nil callbacks are skipped by the code and cannot be observed) in parts alias and overlap; parts random, degenerate, edges and reload "
                              "also run consumers that register any subset of them: what cannot be observed is not demanded, what reaches the registered callbacks must be the model's difference restricted to their kinds"],
        parts=[
            dict(name="random", run="TestC17Random", checks=dict(quick=20000, thorough=100000), shards=dict(quick=1, thorough=16)),
            dict(name="reload", run="TestC17Reload", checks=dict(quick=150, thorough=1500), shards=dict(quick=4, thorough=16)),
            dict(name="degenerate", run="TestC17Degenerate", checks=dict(quick=12000, thorough=60000), shards=dict(quick=1, thorough=8)),
            # the caller edits, in place and at every depth, every message it owns: copies obtained from Current() (drafts never loaded), read-modify-write loads of such
            # a copy (accepted / rejected invalid / rejected stale), messages whose load was rejected, configurations a later load superseded; Current() must stay the
            # last accepted configuration and later loads must announce exactly the model's difference
            dict(name="alias", run="TestC17Alias", checks=dict(quick=6000, thorough=60000), shards=dict(quick=2, thorough=8)),
            # 2-3 loads in flight on one Config, the first parked inside one of its handler calls (harness-owned handlers, launch-while-parked); results, the handler
            # calls in invocation order (uninterrupted batches) and the final Current() must be those of ONE sequential order; replay in invocation order yields Current()
            dict(name="overlap", run="TestC17Overlap", checks=dict(quick=4000, thorough=40000), shards=dict(quick=2, thorough=8)),
            # the validity predicate at its edges: a reference predicate written clause by clause from target.proto and the package's error texts; configurations with ONE field on the
            # edge of one clause (unset request name, name in another case / with spaces, empty / blank map keys, nil / empty messages as map values, address list nil / empty / with
            # empty strings / duplicates, partial credentials, request contents below the documented minimum) plus the neighbouring entry a careless lookup would be satisfied by;
            # offered through Load, NewConfigWithBase, Validate and the first Load of a fresh Config, which must give one verdict; clauses the documentation leaves open are not judged
            dict(name="edges", run="TestC17Edges", checks=dict(quick=5000, thorough=50000), shards=dict(quick=2, thorough=8)),
        ],
    ),
    "C02": dict(
        engine="cacheprop",
        technique="model-based property testing (rapid): notification histories with adversarial timestamps vs a per-leaf timestamp model",
        level_text=("Thousands of generated histories (updates, multi-entry, atomic, exact/subtree/glob deletes, both path encodings, keyed paths, "
                    "timestamps drawn relative to the addressed leaf / latest accepted / clock at -3..+3*threshold, stubbed cache.Now, "
                    "future threshold on/off, emulation on/off) are run against the real cache on one goroutine; after every step the returned "
                    "error class and the full Query(*) content (path, timestamp, value) must equal a reference model. Bounded exploration. "
                    "Added (seed P): the caller's containers are the caller's - the FEEDER STYLE is a scenario-level dimension (cacheprop/feeder.go): fresh objects for every notification / "
                    "batch buffers (the []*Update and []*Path lists of a target's notifications live in one long-lived backing array, truncated and refilled with fresh messages for the next batch) / "
                    "everything re-used and scribbled (one arena for the element arrays of prefix and delete paths, PathElem objects, key maps, delete paths, prefix object and the notification struct "
                    "re-used in place for the next call; right after every call list slots - spare capacity included - are overwritten with nil / other messages, paths and prefix rewritten, target renamed "
                    "to another target, struct fields reassigned, and the messages of a refused single/atomic notification overwritten in place, payload bytes included). The model and the feed bookkeeping "
                    "hold clones taken before the call, so the verdict is against what was SUBMITTED; in addition the notification a query returns for a leaf must be addressed to that leaf."),
        level_note=("trusts the reference model (decide/interpret in cacheprop/run.go) and gn.RefIndex/gn.Matches; the two decisions the property leaves open "
                    "(same timestamp + same value in another encoding; whether a multi-update notification's own timestamp already counts as latest) accept either outcome; "
                    "one path encoding per notification; timestamps > 0; no metadata paths from the target (C12)"),
        rule=("cases are histories of 1-60 steps over 1-2 targets; non-trivial = the history contains an update at or below the stored timestamp of an existing leaf "
              "AND a delete that removed at least one leaf; distinct = distinct hash of the scenario; labels feeder:* give the feeder style of the case, "
              "update-list-slots-of-still-stored-leaves-overwritten marks cases where a re-used list was overwritten while leaves stored from its last batch were still held"),
        assumptions=COMMON + ["cache.Now is stubbed with a scenario-controlled clock", "random part: single goroutine, every step is a quiescent point",
                              "feeder styles: what the cache accepts as one stored unit (a single-update or atomic notification it did not refuse, with its prefix and lists; every Update message) is the cache's "
                              "from then on and is never touched by the harness - the unchanged cache stores exactly those objects without copying ('avoid the unnecessary proto.Clone call'); "
                              "the struct, prefix, lists and delete paths of a notification the cache splits or stores nothing of, and everything of a refused single/atomic notification, stay the caller's"],
        parts=[dict(name="random", run="TestC02Random", checks=dict(quick=2000, thorough=25000), shards=dict(quick=4, thorough=16)),
               # one target fed from 2-4 goroutines at once, each writing its own leaves (real scheduler, aligned starts): per-leaf discipline and the
               # target's latest accepted timestamp must come out as in any sequential order
               dict(name="parallel", run="TestC02Parallel", checks=dict(quick=120, thorough=600), shards=dict(quick=4, thorough=16),
                    args=dict(quick=["-c02.rounds=150"], thorough=["-c02.rounds=500"]))],
    ),
    "C03": dict(
        engine="cacheprop",
        technique="property testing (rapid): replay of the change feed vs Query, feed prediction by a model, multi-vs-singles differential, aliasing probes",
        level_text=("Same engine as C02 plus Reset/Remove/Add/Sync/Connect/ConnectError/UpdateMetadata and shared prefix objects with spare capacity. "
                    "After every step the replayed feed must equal Query(*) for every target (metadata leaves included); per call the feed entries must be exactly those the model "
                    "predicts, in order (suppression allowed only for an unchanged value with emulation on); each history is re-run with multi-entry notifications split into singles "
                    "and must end in the same content and replayed feed; the submitted notification and the spare capacity of shared prefixes must be untouched. Bounded exploration. "
                    "Added (C02 seed P): feeder styles as a scenario-level dimension (see C02; cacheprop/feeder.go): callers that re-use and overwrite the containers they still own after the call. "
                    "'Input unmodified' follows the feeder: messages the feeder has not rewritten must still equal their clones, every slot of the feeder's re-used arrays (spare capacity included) must hold "
                    "the pointer the feeder put there, and a delete handle given to the feed must still read the same at the next quiescent point although the caller's objects have been scribbled."),
        level_note="trusts the replay function (update sets, atomic replaces its container, delete removes what it matches) and the model; multi-vs-singles only with threshold off",
        rule=("cases are histories of 1-60 steps over 1-3 targets; non-trivial = a delete that produced >=2 feed entries for leaves stored through one shared prefix object, "
              "or a multi-entry notification mixing accepted and rejected updates; distinct = distinct hash of the scenario"),
        assumptions=COMMON + ["cache.Now is stubbed with a scenario-controlled clock", "single goroutine: every step is a quiescent point"],
        parts=[dict(name="random", run="TestC03Random", checks=dict(quick=2000, thorough=25000), shards=dict(quick=4, thorough=16))],
    ),
    "C14": dict(
        engine="cacheprop",
        technique="model-based property testing (rapid): multi-target histories with Reset/Add/Remove; before/after snapshots of every other target",
        level_text=("Histories over 2-4 targets on a deliberately small path universe (so targets hold leaves at the same paths). Around every operation addressed to one target the "
                    "stored content (deterministic marshalling of every leaf) and every exported metadata value of all other targets are snapshotted and must be identical afterwards; "
                    "after Reset the target has no data leaf, its metadata is back to initial values and the feed replay is empty for it; after Remove it is unknown to HasTarget/Query/GnmiUpdate "
                    "and a whole-target delete was fed. Cache part of C14; subscriber part in subprop. Bounded exploration."),
        level_note="UpdateMetadata/UpdateSize act on all targets and are not isolation-checked; latestTimestamp after Reset only required to be <= 0 (the zero time exports as a negative number)",
        rule=("cases are histories of 1-60 steps over 2-4 targets; non-trivial = a Reset or Remove of a target holding >=2 top-level subtrees while another target holds a leaf at one of the same paths; "
              "distinct = distinct hash of the scenario"),
        assumptions=COMMON + ["cache.Now is stubbed with a scenario-controlled clock"],
        parts=[dict(name="random", run="TestC14Random", checks=dict(quick=2000, thorough=20000), shards=dict(quick=4, thorough=16)),
               dict(name="subscribers", engine="subprop", run="TestC14Sub", checks=dict(quick=1500, thorough=30000), shards=dict(quick=4, thorough=8)),
               # every target driven by its own goroutine at once (collector shape): per-target sequential model, bystanders, structural deadlock verdict
               dict(name="owners", run="TestC14Owners", checks=dict(quick=150, thorough=2500), shards=dict(quick=4, thorough=8))],
    ),
    "C15": dict(
        engine="cacheprop",
        technique=("property testing (rapid): conservation laws of exported counters vs the real tree and vs per-call outcomes predicted by a model; "
                   "latency: generated window sets / precisions / sample schedules against a stubbed latency.Now with the harness's own slot bookkeeping; "
                   "race: collector-shaped stress (one update stream per target + the two refresh loops) under the race detector, reports classified by frame pair; "
                   "latency-long / cache-latency-long: the ratio window/refresh-period (100 .. 43200) and the lifetime of a window (up to 3x its size) as generated dimensions, "
                   "compact scenarios expanded deterministically, harness bookkeeping slid incrementally (monotonic deques)"),
        level_text=("Histories with lifecycle calls and refreshes; after every step targetLeaves == number of non-metadata leaves stored == added - deleted; per submitted notification the deltas of "
                    "updated/suppressed/stale/future/empty equal the outcomes predicted by the model (accepted and fed, accepted and withheld, stale, future; each delete path counts as one update; "
                    "atomic accepted counts its contained updates); after UpdateMetadata latestTimestamp == greatest accepted target timestamp. Counter part of C15; latency and race parts are separate parts of this check. Bounded exploration. "
                    "Parts latency-long (latency.New/Compute/UpdateReset/UpdateLast) and cache-latency-long (cache.WithLatencyWindows + GnmiUpdate + UpdateMetadata, cache.Now/latency.Now stubbed, the "
                    "meta/latency/window leaves judged after every refresh): 1-3 windows of 100, 1000, 1023/1024/1025, 1800, 2047/2048/2049, 3600, 4096/4097, 8192, 43200 (24h at 2s) or any 50-6000 "
                    "refresh periods (incl. 1m/1h/24h at 2s together), played for window+1..5 refreshes up to 3x the window (up to 150000 refreshes); samples in every period (1-3 each), every n-th "
                    "period (n = 2..50, size/1024, size/100) or in bursts only; 1-6 outliers (2-200x above / below the typical latency, zero, negative) in the first periods, in the periods that expire "
                    "at the last refreshes, at positions aligned to 2/4/64/size-1024/size-1000 granules or anywhere, with ordinary samples in the 0-64 periods before and after them; refreshes on time, "
                    "all a little late, skipped for 1-5 periods or for size/1024..size/100 periods, one delayed, extra ones inside a period. At every refresh every exported statistic of every window "
                    "must lie within [smallest, largest] latency of the slots that end inside the window (avg: +- precision). Sensitivity (author's mutants, invisible to the older latency parts, "
                    "caught within 60 cases): slots folded into size/1024 granules; sliding amortised when a window holds >1500 slots; max cached for 8 refreshes when >600 slots; the two oldest "
                    "slots compacted when >3000 slots."),
        level_note="a rejected atomic notification is only required to bump its reject counter at least once; lifecycle-generated metadata updates are not judged per call",
        rule=("cases are histories of 1-60 steps over 1-2 targets; non-trivial = the history contains an accepted, a suppressed and a stale update, a delete that removed a leaf, "
              "and a ConnectError followed by Connect on the same target; distinct = distinct hash of the scenario. "
              "latency part: cases are (period, 1-3 windows, precision, 1-20 periods of 0-4 samples); non-trivial = a window with >=2 non-empty covered slots exported avg, max and min in one UpdateReset and a non-empty slot had slid out of a window that was exporting. "
              "race part: a case is one round (fresh cache, 1-3 streams, both refresh loops); non-trivial = the first UpdateMetadata overlapped the streams, an UpdateMetadata ran between a Reset and the end of that stream, updates were accepted after a Reset and a Sync happened. "
              "latency-long / cache-latency-long: a case is one compact history (period, windows in periods, precision, lifetime, base-sample pattern, bursts, outliers, refresh schedule); "
              "non-trivial = a window of >=1000 periods exported a statistic at a refresh at which the expiry of a slot tightened that window's [smallest, largest] (its extreme latency had just left)"),
        assumptions=COMMON + ["cache.Now is stubbed with a scenario-controlled clock",
                              "latency.Now is stubbed with a scenario-controlled clock; UpdateReset is called exactly once per period (its documented use)",
                              "race part: workloads are seeded, schedules are the real scheduler's (not reproducible); SetClient and option registration happen before the goroutines start, as their documentation requires",
                              "latency-long parts: |latency| <= 200 s for base samples and <= 1e15 ns for <=64 outliers so that the accumulated sums stay inside int64 (Options.AvgPrecision puts that on the caller); "
                              "cache level: latencies of 1 ms .. 1000 s on fresh leaves of one synced target (every statistic is non-zero and re-set by each refresh of a non-empty window), a leaf that keeps its "
                              "value after its window emptied is not judged; cache.New registers window names process-wide (metadata.RegisterLatencyMetadata), cases run one after another and use 22 window durations"],
        parts=[dict(name="random", run="TestC15Random", checks=dict(quick=5000, thorough=40000), shards=dict(quick=1, thorough=16)),
               dict(name="latency", run="TestC15Latency", checks=dict(quick=5000, thorough=50000), shards=dict(quick=1, thorough=8)),
               # the same bound with UpdateReset called off-schedule and late (Target.Reset calls it on every reconnect)
               dict(name="latency-irregular", run="TestC15LatencyIrregular", checks=dict(quick=8000, thorough=60000), shards=dict(quick=1, thorough=8)),
               # operations on other targets run while an operation (refresh pass, Reset, update, lifecycle call) is inside a change-feed callback
               dict(name="nested", run="TestC15Nested", checks=dict(quick=2500, thorough=30000), shards=dict(quick=1, thorough=8)),
               # cache-level latency bound: only updates accepted in sync (after Sync, before the next Reset) may influence what a refresh exports
               dict(name="cache-latency", run="TestC15CacheLatency", checks=dict(quick=3000, thorough=40000), shards=dict(quick=1, thorough=8)),
               # windows of 100 .. 43200 refresh periods that live for up to 3x their size: latency package level, and through the cache
               dict(name="latency-long", run="TestC15LatencyLong", checks=dict(quick=600, thorough=6000), shards=dict(quick=1, thorough=8)),
               dict(name="cache-latency-long", run="TestC15CacheLatencyLong", checks=dict(quick=80, thorough=1000), shards=dict(quick=1, thorough=8)),
               # every target driven by its own goroutine next to dense size / metadata refresh loops; exported counters judged at quiescence; structural deadlock verdict
               dict(name="owners", run="TestC15Owners", checks=dict(quick=100, thorough=1500), shards=dict(quick=2, thorough=8)),
               dict(name="race", run="TestC15Race", rapid=False, race=True,
                    # several processes: some defects only show in a process's first round (first use of package-level state)
                    args=dict(quick=["-c15.rounds=60"], thorough=["-c15.rounds=1000"]), shards=dict(quick=3, thorough=8))],
    ),
    "C09": dict(
        engine="ctreeprop",
        technique="model-based property testing (rapid) + exhaustive small-scope enumeration against a prefix-free map model",
        level_text=("Every sequence of <=4 ops (20-op alphabet) and <=3 ops (73-op alphabet) over a two-letter path alphabet is enumerated, "
                    "and tens of thousands of random sequences of up to 40 ops (depth 4, three letters, relative addressing, retained handles) "
                    "are compared after every op against a reference map on the full observation set the property lists "
                    "(GetLeafValue/GetLeaf/Get/IsBranch/Children/Query for every pattern/Walk/WalkSorted/return of Delete*). "
                    "Bounded exploration: exhaustive only inside the stated small scope."),
        level_note="trusts the 150-line reference model and the match relation derived from Query's documentation; values are ints; no concurrency (that is C10)",
        rule=("cases are operation sequences on an empty ctree.Tree compared step by step with a prefix-free map model "
              "(exhaustive: all sequences of <=4 ops over 20 ops and <=3 ops over 73 ops on paths over {a,b}, patterns over {a,b,*}; "
              "random: 1-40 ops, depth<=4 over {a,b,c}, relative addressing, retained leaf handles). "
              "non-trivial = the sequence contains a failed Add, or a successful Add beneath a branch that an earlier delete pruned; "
              "distinct = distinct hash of the op sequence"),
        assumptions=COMMON + ["stored values are non-nil (nil is the tree's 'empty' sentinel): ints in the exhaustive and random parts, values of seven kinds in the rich part", "stored values are non-nil INTERFACE values (typed nil pointers/maps/slices/funcs are values and are generated); tree-related values (Children() maps, nodes, leaf handles) are taken from another tree, never from the tree they are stored in (a value reaching its own tree is a cycle, and the tree's error texts print values with %#v)", "Query visitors: only the path slice handed to the LAST invocation of a query is required to stay unchanged afterwards (on the unchanged tree the invocations of one Query may share a backing array from depth 4 on; the paths are compared at the instant of each invocation)", "Add/Get paths contain no element equal to '*' (documented precondition)", "reading of 'restricted by the condition' (doc comments of DeleteConditional / WalkDeleted): one call of a conditional delete puts every leaf a query for the same path reports to the condition exactly once and nothing else; the leaves for which it answered yes in that call are the ones removed and returned / handed to f; conditions and visitors never call into the tree (it holds its locks while it calls them)"],
        parts=[
            dict(name="exhaustive", run="TestC09Exhaustive", rapid=False),
            dict(name="random", run="TestC09Random", checks=dict(quick=6000, thorough=40000), shards=dict(quick=1, thorough=16)),
            # element strings on both sides of '/', one a prefix of its sibling (sorted order is element-wise); values of every kind incl. uncomparable ones
            dict(name="rich", run="TestC09Rich", checks=dict(quick=6000, thorough=40000), shards=dict(quick=1, thorough=8)),
            # ownership of the slices/maps crossing the API boundary, both directions: arguments built in re-used buffers (offset, spare capacity) and overwritten after the call,
            # results kept / rewritten in place / appended to, everything kept re-compared after every later op and at the end of the sequence
            dict(name="alias", run="TestC09Alias", checks=dict(quick=5000, thorough=40000), shards=dict(quick=1, thorough=8)),
            # callbacks with state and a call protocol: conditions of DeleteConditional/WalkDeleted that are not predicates of the value (budget, one-shot permit, skip-k, alternate,
            # once per value, state carried over two deletes); what the condition answered in the call against what the delete removed/returned/handed to f; recording/stopping visitors
            dict(name="callback", run="TestC09Callback", checks=dict(quick=2000, thorough=30000), shards=dict(quick=1, thorough=8)),
            # wide nodes and high-water marks: nodes with 100..5000 children (around 127/128/129, 255/256/257, 511/512/513, 1000/1024, 4096+) at the root and at depth 1-2, built up,
            # torn down by ONE glob/subtree/conditional delete (all, all but one, three quarters, to a quarter of the peak +-1) or by literal deletes across the same thresholds, refilled, torn down again
            dict(name="wide", run="TestC09Wide", checks=dict(quick=200, thorough=3000), shards=dict(quick=1, thorough=8)),
        ],
    ),
}


# ---- extensions made after the second round of independently seeded changes (DESIGN.md 10.6/10.7) -----------------
# Text appended to the entries above: what the added parts and generator dimensions cover. (Kept separate so that
# the original statements stay readable; MANIFEST.json and the evidence files carry the concatenation.)
EXT = {
    "C01": dict(
        technique="; scripted targets whose streams break and come back, observers attached at scripted instants, slow consumers (blocked handlers on static-window connections)",
        level_text=(" Parts slow and break watch the scripts WHILE they play: client-library observers subscribe at scripted script positions, may stop reading (handler blocked until "
                    "the target has sent a burst: 10-40 updates of 16-32 KB and 2-4 rounds of atomic containers / multi-update notifications / leaves sent again), and the target's stream "
                    "breaks (status, transport closed, Collector.Reconnect) with the target reporting its current state - possibly without some earlier leaves - when the collector subscribes "
                    "again; observers attach before / at / after the break, also exactly when an attaching observer got its first update of a walk over up to 12000 leaves. Scripts of every "
                    "part also carry atomic notifications (2-6 updates, sent again with later members changed) and multi-update notifications. Same oracle for every observer."),
        level_note="; timing decides which windows are hit (recorded as labels), never the verdict; every wait inside a case is bounded (3 s) and a bound that passes is only a label",
        rule="; slow part: additionally a blocked observer demonstrably received a coalesced delivery; break part: additionally the collector subscribed again and an observer attached mid-script",
    ),
    "C13": dict(
        technique="; API calls overlapping each other and the manager's own timers (calls on their own goroutines, structural settling instead of synctest.Wait while a call waits for the manager's mutex)",
        level_text=(" Part overlap: 1-3 targets with per-target receive timeouts and a 'hold' (Recv, dial, or a Reset/Update/ConnectError callback that does not return until released), 1-8 steps "
                    "remove/add/reconnect/release each on its own goroutine, optionally unsettled (no wait for quiescence) and aimed (+-offset) at the next receive-timeout expiry, message, dial "
                    "completion or retry of a target. Oracle per name, sound under any schedule: Add/Remove results linearizable over the bit 'managed', callbacks only while some linearization "
                    "has the name managed or a Remove of it running, no new attempt while the previous stream is unfinished, Remove returns only after the session wound down, plus the ordering clauses."),
        rule=" overlap: non-trivial = a call started while another was in flight, or a call landing on its own target's receive-timeout or retry instant",
    ),
    "C10": dict(
        technique="; schedules forced inside operations through their user callbacks (condition/visitor parks); short aligned-start bursts on empty nodes; a differential (sequential re-execution) history oracle",
        level_text=(" Part cbgate: the k-th callback of DeleteConditional/WalkDeleted/Query/Walk/WalkSorted parks on a channel while other threads run one operation per step (handle updates aimed "
                    "at leaves the parked delete has or has not inspected yet), judged by the linearizability checker. Parts burst/burst-race: 2-4 racers x 1-3 operations around a focus node that "
                    "is empty (fresh root, root emptied by a delete, nil leaf), incl. the empty path and nil values, 16-64 runs per scenario from an aligned start; every run judged by porcupine "
                    "and by a differential oracle (some sequential order of the recorded operations on a fresh tree reproduces every result and the final content)."),
    ),
    "C12": dict(
        technique="; a size model for every generated dimension; one server and one cache living across long request sequences",
        level_text=(" Generators sample sizes around capacity steps (keys 0-12, elements 0-40, entries 0-300, subscriptions 0-100, leaf-lists 0-300, strings 0-5000) and many distinct undeclared enum "
                    "numbers. Part life: one cache (2-40 targets) and one subscribe.Server with a drawn option set live across 1-400 steps (hostile and valid notifications, Subscribe RPCs that stay "
                    "open across later steps, lifecycle calls, probes); per-message oracles as before, a valid ONCE probe must still be answered, reads do not change the cache. Fuzz target FuzzC12Life."),
    ),
    "C02": dict(
        technique="; plus aligned-start parallel feeding of one target from several goroutines (real scheduler), schedule-independent oracle",
        level_text=(" Part parallel: 2-4 goroutines feed ONE target at once, each writing its own 1-2 leaves with globally distinct timestamps (150-500 aligned-start rounds "
                    "per case): every result must be what the per-leaf sequential discipline says, every leaf ends with its newest update, and the target's latest accepted "
                    "timestamp (meta/latestTimestamp) is the greatest one submitted. Generators also draw bulk notifications of 3-130 sibling leaves, glob deletes re-addressed to "
                    "stored leaves, and updates carrying the smallest change of the stored value."),
        level_note="; two goroutines racing on ONE leaf are not generated (the cache does not serialise the stale check and the store for one leaf; outside the property's sequences, see DESIGN.md 10.3)",
        rule=" parallel: cases are (goroutines x updates) workloads; non-trivial = 2+ goroutines",
    ),
    "C03": dict(
        level_text=(" Generators also draw: bulk notifications of 3-130 sibling leaves and deletes (subtree or glob, re-addressed to stored leaves) that remove more than 32/64 leaves "
                    "while newer matching leaves survive; updates that carry the smallest change of the value stored at the addressed leaf (next integer / next representable float / "
                    "digits+1 / one more byte); decimal64, large integers beyond float precision, json_ietf and ascii values."),
    ),
    "C04": dict(
        technique="; writers additionally parked inside the harness-owned change-feed callback",
        level_text=(" Added dimensions: element names of which one is a string prefix of another or contains '/', sibling subscription paths, writer notifications of 5-130 sibling "
                    "leaves, back-dated deletes and glob deletes over the siblings of a stored leaf (large deletes with newer survivors), writers parked inside the change-feed "
                    "callback after its k-th entry was forwarded (Reset between two of its per-root announcements; a multi-update notification between two of its leaves) while "
                    "subscriptions start, are released or drained."),
    ),
    "C05": dict(
        level_text=(" Added dimensions: names with common string prefixes or '/', sibling paths in one request, bulk notifications up to 520 sibling leaves (results of more than 256 "
                    "leaves for one path), back-dated and glob deletes, writers parked inside the change-feed callback."),
    ),
    "C07": dict(
        level_text=(" Added dimensions: quiet periods (virtual sleeps of 1-61 s against send timeouts of 10 s/30 s/1 min) after responses for denied targets were filtered - a subscriber "
                    "whose sends never block must not time out -, bulk notifications, rich names, writers parked inside the change-feed callback."),
    ),
    "C08": dict(
        level_text=(" Added dimensions: access-control tables in a quarter of the scenarios (filtered responses followed by quiet periods), big rounds in which a backlog of 20-130 "
                    "distinct leaves builds up behind a subscriber without credit, part of it is taken, further distinct leaves arrive and everything drains; bulk and back-dated writer notifications."),
    ),
    "C14": dict(
        technique="; a Remove raced against re-Add+update of the same name, and Resets parked inside the change-feed callback while subscribers attach",
        level_text=(" Added (subscribers part): step rmadd - Remove(T) is parked inside the harness-owned feed callback of its whole-target delete before the announcement is forwarded, "
                    "Add(T)+update(T) is started on another goroutine while it is parked (it can proceed only if Remove does not hold the cache lock across the announcement), the "
                    "processor is yielded 500 times and the remover released; writer steps of kind Reset/notification parked inside the feed callback after the k-th entry while "
                    "subscriptions start. Convergence of every running subscriber with the cache is judged at the following quiescent points."),
        level_note="; the yields of the rmadd step only decide which interleaving is exercised, never a verdict",
    ),
    "C15": dict(
        level_text=(" The race part draws, for half of the rounds with latency windows, a fast clock (cache.Now/latency.Now advance 53 ms per reading) so that the 2 s/4 s windows become "
                    "covered and slide while Reset and the periodic refresh overlap; at the quiescent end exported min<=avg<=max and the bounds [-1h, time covered] are checked."),
    ),
    "C09": dict(
        level_text=(" Part rich: element strings on both sides of '/' in byte order, empty, non-ASCII, one a string prefix of its sibling (WalkSorted order is element-wise), and stored "
                    "values of every kind incl. kinds Go cannot compare with == (slices, maps, structs holding slices) and -0.0 over 0.0."),
        rule=" rich: cases are 2-30 add/delete ops; non-trivial = an Add at an existing leaf with an uncomparable value of the same type, or an element that is a string prefix of a sibling with deeper leaves",
    ),
    "C11": dict(
        technique="; long single-goroutine histories with large backlogs; free-running producers/consumer on the real scheduler inside a bubble",
        level_text=(" Part large: phases of 1-130 inserts over 40-1000 distinct items followed by 0-200 deliveries (backlogs past 16/32/64/128), compared call by call with the model. "
                    "Part stress: 1-4 producers x 1-64 inserts against one consumer on the real scheduler for 300-1000 rounds per case; at bubble quiescence the consumer must have drained "
                    "the queue (a consumer blocked in Next with Len()>0 is a lost wake-up), accepted==delivered, coalesced==sum of duplicate counts, Close ends the consumer."),
        rule=" large: non-trivial = an insert with more than 17 of 32+ appended slots pending and one full drain; stress: non-trivial = 2+ inserts per producer",
    ),
    "C06": dict(
        technique=("; registrations removed/added while Update/UpdateNotification calls are in flight (calls paused inside a harness-owned callback, plus free-running rounds on the real "
                   "scheduler), judged by schedule-independent sequence-stamp oracles"),
        level_text=(" The random and server generators draw, in half of the scenarios, index strings that contain a joiner ('/', ':', '[', ']', '=', ',', ' ', NUL), are empty or equal two "
                    "alphabet members joined by one, in element names, key values, origins and targets; derive paths from paths already in the scenario (same path again, element boundary "
                    "moved across a joiner, longer, shorter, globbed; prefix/path re-split); probe every path of a list with a single-entry notification; lists of 20-100 paths with repeats, "
                    "notifications of 5-40 entries, paths up to 10 elements, up to 12 clients at one path. In-flight part: 1-12 registrations by up to 6 clients, 1-3 rounds of 1-4 concurrent "
                    "calls (paused inside their k-th callback, or repeated freely) against 1-3 mutator goroutines removing/adding/re-adding registrations; never-after, must-call and at-most "
                    "oracles from one atomic stamp counter; audit updates at quiescence."),
        level_note="; the in-flight part waits 100-600 us of real time for the mutators before it releases paused calls: that wait decides only whether the window is hit, never a verdict",
        rule=(" inflight: cases are (registrations, rounds); non-trivial = while a call was paused inside a callback, remove() was requested for a compatible registration whose client the "
              "call had not invoked yet"),
    ),
    "C16": dict(
        technique=("; the stepwise model at sizes beyond 32/64/128; free-running storms in virtual time; real-scheduler convoys in front of the Manager's lock; "
                   "every argument of Connection (dialer name, context kind incl. virtual-time deadlines) as per-request data under an either-way oracle for what the property leaves open"),
        level_text=(" Part wide: the exact stepwise model with 4-260 addresses and up to 300 threads (many dials pending / requesters blocked at once). Part storm: 1-300 requesters over 1-375 "
                    "addresses free-running in one bubble with slow scripted dials, cancellation at every phase, 1-4 concurrent calls of the same done func, nested re-acquire, probes; "
                    "every requester returns (bubble quiescence), at most one dial per address in flight, outcomes belong to the requester's own address, a held connection is never SHUTDOWN, "
                    "everything is SHUTDOWN after the last release. Part convoy (real scheduler): generated sets of calls (the same done func from 1-8 goroutines, releases, requests) piled up "
                    "while the Manager's lock is kept busy by a gated resolver Close; verdict from the data after joining. Stress part: concurrent double release through a spin barrier."),
        level_note=("; the stepwise parts assume that a request for an address with neither a connection nor a pending dial enters the dial function before it blocks on anything else "
                    "(a cross-address dial throttle would be reported as no-fresh-dial); the storm part does not assume it"),
    ),
    "C17": dict(
        technique="; rich configurations reloaded many times in different representations of the same content",
        level_text=(" Part reload: configurations with every field of target.proto, 0-6 keys per path element, several entries in every map field, 0-300 targets, 1-80 requests, unusual "
                    "names, reloaded 5-50 times per step in 11 representations of the same content (map insertion order, nil/empty, wire/text/JSON round trips, clones, shared sub-messages) "
                    "with 62 kinds of single-field/bulk edits, stale and invalid loads between; the handler calls of one load must equal the plain-data difference (an identical reload runs "
                    "no handler)."),
        rule=" reload: non-trivial by the same rule; a replay repeats the scenario up to 40 times (map iteration order cannot be pinned)",
    ),
    "C18": dict(
        technique="; client-lifetime sequences (Subscribe/Close/Poll/cancel repeated on one client object); a family of 23 error-value kinds at every failing site",
        level_text=(" Added: every failing step of the scripted transport returns one of 23 kinds of error value (plain, wrapped, empty text, typed nil, errlist with 0-3 errors, errors.Join, "
                    "context.Canceled/DeadlineExceeded look-alikes, io.EOF variants, status codes, ErrClientInit); a second registered client type that fails at once (getFirst with two types). "
                    "Part lifetime: 1-10 steps on one client object (Subscribe with its own possibly cancelled context, cancel, Close, Poll, final Close): termination per Subscribe and per "
                    "Close, no attempt after a Close of a reconnecting client returned, callback discipline per call, ErrClientInit before the first Subscribe."),
        level_note="; two Subscribe calls running at once on one client object are not generated (undocumented use; the unchanged client does not terminate the earlier call there)",
        rule=" lifetime: non-trivial = 2+ Subscribe calls on one client object",
    ),
    "C19": dict(
        technique="; free-running differential part for the pure conversions (concurrent result == result when run alone), optionally under -race; a large-shapes part",
        level_text=(" Part concurrent: 2-16 goroutines convert pools of shared and private paths/queries/values (multi-key elements with 2-8 keys dominate) for 300-1000 rounds per case; every "
                    "concurrent result must equal the result of the same call run alone and inputs must be unmodified; under -race, reports with a gnmi frame are violations. Part large: the five "
                    "sequential oracles on elements with 5-10 keys, 50-300 elements, 1-8 KiB strings with '/', '[', ']', '=', '\\', U+FFFD, long leaf-lists."),
        rule=" concurrent: non-trivial = conversions of multi-key paths in flight on 2+ goroutines",
    ),
    "C20": dict(
        technique="; a second generator for size and shape of the configuration; streams also observed at UpdateQueue.Latest/Add and through a real fake Agent over gRPC on loopback",
        level_text=(" Part shapes: configurations of 1-300 values (sizes sampled around 16, 32, 64, 128, 256) in eight layouts on the time axis, 1-6 cadences, repeats up to 40, option lists up "
                    "to 24 entries; Latest() read after New/Add/Next; 28% of the cases also build the generator by New(first k)+Add(rest), 15% are also served by a real Agent."),
        level_note="; the Agent observation uses real sockets: a 2-minute patience or a transport error labels the case inconclusive, never a verdict",
    ),
}
# ---- rounds 3 and 4 (DESIGN.md 10.8, 10.9): further text per entry ------------------------------------------------
EXT2 = {
    "C01": dict(level_text=(" Part resub: observers re-use one client.Query value (ONCE then STREAM, reconnecting clients whose connection to the collector is cut), string queries with '/' in "
                            "elements and key values; stream breaks made by the collector itself (receive_timeout after scripted silence, Collector.Reconnect) after which the target may lack units."
                            " Part reach: targets configured with several addresses (1-3 dead ones - connection refused on a port the case owns, accepted and never spoken to, accepted and closed, "
                            "answered without TLS, TLS handshake aborted - and the live one first / in between / last; a line listed twice; address chains 'hop;rest'; dead endpoints shared by targets), "
                            "collector run with -dial_timeout 0.5-1.2 s; which address the collector dials first is its choice (label). Part size: short scripts with one or two unusually large "
                            "SubscribeResponses, measured where they are sent: 2-5 string/bytes values of 0.5-3 MiB in one plain or atomic notification (above 4 MiB, sometimes above 8 MiB), "
                            "1000-20000 (thorough 100000) updates in one notification (up to 10 / 24 MiB), rarely one value above 4 MiB; in the sync burst and/or after it, with client-library observers "
                            "streaming meanwhile, sometimes followed by a stream break after which the target reports the big state again in ONE response; read back through the client cache and all "
                            "six CLI invocations."
                            " Every part: targets that speak the legacy value encoding - a per-target dimension (3 in 8 targets, somewhat more in the slow part): 60-100% of what such a device says "
                            "travels in the deprecated Update.value field (gnmi.Value, encoding JSON with objects / arrays / strings / numbers / booleans / null, JSON_IETF, BYTES incl. payloads that look "
                            "like JSON) instead of Update.val: plain leaves, several legacy values meeting on one leaf, members (also the first) of atomic containers and of multi-update notifications, "
                            "replace notifications, bulk states and 16 KB - 3 MiB values, leaves and containers sent again while an observer's handler is blocked (a hot leaf rewritten in every round of "
                            "a burst), the state reported again after a stream break. The reference view holds what the client library documents for them (json.Unmarshal into any: map / slice / "
                            "string / float64 / bool / nil; BYTES as they are) and the expected gnmi_cli text is rendered from that by the harness; labels record the scripted slow-consumer shape "
                            "(legacy leaf written >= 2 times inside a pause and never after) and what the schedule made of it (coalesced legacy delivery observed / being the last word on its leaf / at "
                            "a blocked observer)."),
                technique="; target address lists with dead endpoints; single responses above gRPC's default message size; targets speaking the deprecated Update.value encoding",
                level_note=("; a Subscribe call the script did not ask for (the collector lost the stream on its own) does not count as progress for the hang rule, so a collector that never "
                            "connects or keeps resetting a target ends as 'quiesced-but-incomplete' after two runs from scratch, with the end of the collector's log in the message"
                            "; legacy values: encodings the client documents as an error (PROTO, ASCII in Update.value), empty payloads, JSON numbers beyond float64's integer range and strings with "
                            "line breaks are not generated"),
                rule="; reach part: additionally some target lists a dead address besides its live one; size part: additionally a target did send a single response above 4 MiB or with >= 1000 updates"),
    "C02": dict(level_text=(" Further generated dimensions: prefix and paths in independent encodings (structured, deprecated strings, both mixed, stray deprecated strings next to elem), absolute "
                            "timestamps from the edges of the int64 range (scenarios without a future threshold), key names differing only in case, NaN/Inf/-0, odd element names, operations through "
                            "the exported per-target entry points."),
                level_note="; update paths never contain the string '*' (a stored literal '*' makes delete announcements inherently ambiguous) nor an origin of their own (DESIGN.md 10.7 (7))"),
    "C03": dict(level_text=(" Further: the encodings, timestamps and values listed under C02; every notification handed over in the last 40 calls is compared with the clone taken before its call "
                            "after every step (the cache may keep the caller's object but must not write to it later).")),
    "C04": dict(level_text=(" Further: subscription paths unset / in the deprecated encoding / with per-path origins (incl. 'openconfig'), deprecated Update.value values, writer notifications in five "
                            "path encodings, stream contexts carrying an RPC deadline, step wrace: a writer (Remove, Reset, delete) started on another goroutine while a subscription's walk is parked "
                            "inside a queue insertion (inside the cache query's visitor, all walk locks held), released after a few hundred yields.")),
    "C05": dict(level_text=(" Further: the subscription shapes listed under C04; an RPC may end with an error only for a reason the scenario gave (unknown target, ACL, invalid request, cancel, timeout); "
                            "wrace steps for ONCE/POLL walks.")),
    "C07": dict(level_text=(" Further: seven kinds of error values from the ACL backend (plain, gRPC status Unavailable/PermissionDenied/OK, wrapped, context.Canceled, empty text); grants that change "
                            "while streams are open (judged as of the step in which the server handed the response to Send); the RPCACL double keeps the context it was created with and fails closed once it is done."),
                level_note="; after a grant changed only the trace monitor applies (convergence is not defined then)"),
    "C08": dict(level_text=" Further: atomic containers reported again and again in bursts (duplicate count of a coalesced multi-update leaf), stream contexts with an RPC deadline."),
    "C09": dict(level_text=(" Further (random part): visits stopped by a visitor error after k invocations followed by structural writes, run under a structural blocked-call detector; path slices kept by "
                            "Walk/WalkSorted visitors compared after the walk; every lookup through one re-used scratch slice; paths returned by Delete/DeleteConditional must be independent slices."
                            " Part alias (ownership of what crosses the API boundary, both directions, for Add/Get/GetLeaf/GetLeafValue/Query/Walk/WalkSorted/Delete/DeleteConditional/WalkDeleted/Children "
                            "and visitor arguments): every argument is built in one of three re-used caller buffers (offset 0-2, spare capacity behind it) or a fresh slice with 0-3 spare slots and is "
                            "overwritten after the call (junk, or other valid elements); the call must not write to any slot of the argument's backing array; every path slice obtained (returned by "
                            "Delete/DeleteConditional, handed to a Walk/WalkSorted visitor, handed to the last invocation of a Query visitor) is kept, rewritten in place (also inside the visitor) or "
                            "appended to, and must read the same after every later op and at the end of the sequence; a Children() map is emptied and refilled; the full observation set is compared "
                            "with the model after every op. Part rich also stores (Add and Leaf.Update through a handle) values of eight further kinds a caller builds from the package's own API or that "
                            "resemble the tree's representation: Children() snapshots and hand-built map[string]*ctree.Tree (empty, nil, with nil entries), *ctree.Tree, *ctree.Leaf (incl. nil pointers), "
                            "ctree.Tree/ctree.Leaf by value, funcs, named map types/pointer to map/channel, empty-looking values (\"\", false, 0, nil slices, typed nil pointers); the model treats them as "
                            "opaque (identity for maps/funcs/channels/pointers), compares GetLeafValue/GetLeaf/Get/IsBranch/Children/Walk/Query/WalkSorted after every op, Delete/DeleteConditional/"
                            "WalkDeleted with glob paths and a condition on the dynamic type, and that the tree the values were taken from is never modified."
                            " Part callback (callbacks with state and a call protocol): the conditions of DeleteConditional / WalkDeleted are state machines drawn as data - a budget of k yes-answers (k=1: one-shot "
                            "permit), no to the first k consultations, every other consultation, once per value, even values at most k times, the state optionally carried into the next conditional delete - next to "
                            "a control group of predicates; values all over 1..1000 or over 1..4/1..6 (several matching leaves hold the same value). Nothing the tree does not promise is predicted (which leaves a "
                            "budget picks depends on the visiting order); judged per call, as multisets of values: the condition is consulted once per matching leaf and for nothing else; f of WalkDeleted is never "
                            "called for a value before the condition accepted it and in the end once per yes-answer; the paths DeleteConditional returns are exactly the leaves gone from the tree (Walk before/after); "
                            "every leaf gone matched the path; the values of the leaves gone are the yes-answers (so the matching leaves that stayed are the no-answers); predicates remove what the model predicts; "
                            "the model then drops exactly the leaves gone and the full observation set is compared after every op (pruning), 'readd' ops Add at, above or below a leaf the last delete removed. "
                            "Visitors of Query/Walk/WalkSorted record and may stop at their k-th invocation: once per reported leaf, never again after their error, the handle they got reads the reported value "
                            "after the visit. The exhaustive, random, rich and alias parts also count: their (predicate) conditions must be consulted once per matching leaf."
                            " Part wide (wide nodes and high-water marks): 1-2 nodes at the root / depth 1 / depth 2 are filled to 100, 127/128/129, 200, 255/256/257, 511/512/513, 1000/1024/1025, 2048-5000 "
                            "children (three name styles; children are leaves, branches {state}, {state,cfg} or a 1:3 mix), then 1-9 BULK steps: ONE Delete/DeleteConditional/WalkDeleted call over the node "
                            "(subtree path, glob last / in the middle / above the node, globs only, past the leaves) whose condition removes all, all but one, three quarters, nine tenths, or everything "
                            "above / below a threshold placed at a quarter of the node's peak (-1, +0, +1, +2), half, 64, 127, 128; runs of literal deletes (ascending, descending, stride 3; child or leaf path) "
                            "across the same thresholds with a full comparison whenever the child count reaches one; refills (same or other width, other values), a second teardown; Add at the position of the "
                            "emptied node / of a child / through a leaf. Same prefix-free map model, indexed so that every step costs O(leaves): after every step Walk, WalkSorted (order), GetLeafValue of every "
                            "leaf, Get/IsBranch/Children() snapshot of each node, and up to 12 glob queries around each node (glob ranging over the wide node last, in the middle, above it) are compared; per "
                            "delete call: returned paths / values handed to f == what a query for the same path reports under the condition, the condition consulted once per matching leaf, every removed leaf "
                            "gone, every emptied branch pruned (Get nil), the query for the same path reports what is left."),
                technique="; conditional deletes under stateful conditions judged by consistency between the condition's answers and the delete's effects; nodes with 100-5000 children built up and torn down across capacity steps",
                rule=(" alias: cases are 1-40 ops with caller-owned buffers; non-trivial = a path slice obtained from the tree was kept across a later op and an argument buffer was re-used or overwritten."
                      " rich (values): also non-trivial = a leaf holding a tree-related value (kinds 7-13) was overwritten, deleted, or an Add went through it."
                      " callback: cases are 1-8 adds followed by 1-24 ops (add, readd, Delete, DeleteConditional, WalkDeleted, Query, Walk, WalkSorted); non-trivial = a conditional delete whose condition is "
                      "not a predicate of the value accepted at least one leaf."
                      " wide: cases are 1-2 node descriptions and 2-11 bulk steps; non-trivial = ONE delete call removed more than half of the children of a node that had >=100 children at that moment "
                      "(labels record the peak class, the depth of the wide node, all / all-but-one / three-quarters removals, crossings of a quarter of the peak, refills and second teardowns).")),
    "C11": dict(level_text=(" Further: backlogs of 1000-9000 items worked down to fractions of their peak, a hot item inserted up to 70000 extra times, items of six kinds incl. the nil interface; stress: "
                            "Close from several goroutines at once and Close under fire (every insertion that returned before Close was called is delivered). Part window: the consumer parked between "
                            "its emptiness check and its select while inserts complete, the queue is closed and another goroutine holds the queue's mutex when it resumes; 24 repeats per case. "
                            "Logging verbosity as a dimension: code inside `if log.V(n)` blocks of the queue (formatting, extra locking, calls of the queue's own methods) runs only when the process's "
                            "glog verbosity is >= n, which no test of the repository sets. The exhaustive part repeats every sequence of <=6 calls at -v=2 and at -v=3 and every sequence of <=5 at -v=1 "
                            "(457,224 sequences in all; the verbosity is a field of the scenario); the rapid parts draw -v per case (0 in half of them, else 1-3; recorded in the replay file). "
                            "A call that waits for a lock nobody is left to release (a method calling another locking method with the queue's non-reentrant mutex held, a lock kept over a blocking "
                            "select, ...) is not a 'durable' block for synctest, so every part runs under a lock watch: a monitor outside the bubbles looks at the goroutine states when a case lasts "
                            "longer than 1.5 s and declares class deadlock-on-lock iff no goroutine of any bubble can run, at least one waits for a lock, and a second look 2.5 s later is identical "
                            "(goroutine states, not a timeout); the stuck scenario with its verbosity is the replay. Second queue lifetime: an exhaustive sequence that ends closed, drained and told "
                            "so continues with NewQueue() for the next subscriber and then Insert/Len/IsClosed/Next through the OLD handle (must stay refused/0/true/closed) and through the new one "
                            "(delivers exactly what was put into it)."),
                technique="; glog verbosity as a scenario dimension in every part; structural lock-deadlock verdict (goroutine states) for calls that block on the queue's own mutex",
                rule=(" exhaustive at verbosity>0: same cases and non-trivial rule, the verbosity is part of the hashed scenario (labels glog-verbosity>0, glog-verbosity>0:nontrivial, "
                      "glog-verbosity>0:insert+next+close+len-in-one-sequence; concurrent part: glog-verbosity>0:<event> for close-with-pending, waiting-consumer-woken-by-close/-insert, cancel-while-waiting, ...)")),
    "C12": dict(level_text=" Part storm: one request (ONCE/POLL, failing or valid, optionally cancelled mid-answer) served 100-3200 times at once from 2-16 goroutines on the real scheduler against one server."),
    "C13": dict(level_text=(" Part long: 20 ms-1 h retry profiles, up to 160 scripted attempts, failing streaks of 20-120 virtual minutes; error values shaped as gRPC produces them (status Canceled / "
                            "DeadlineExceeded / Unavailable, wrapped, io.EOF) for every scripted failure and cancellation.")),
    "C14": dict(level_text=" Further (subscribers part): wrace steps (see C04), stalled subscribers with partial credit across repeated Resets."),
    "C15": dict(level_text=" Further: Add of an already registered name as one more fresh start (C15 profile only); the race part runs in three processes (first use of package-level state)."),
    "C16": dict(level_text=" Further: dialer names (registered, unregistered, failing) as a generated dimension."),
    "C17": dict(level_text=(" Parts degenerate (nil / empty request and credentials values, empty-but-present maps), alias (every message obtained from Current() and every rejected or superseded message is "
                            "scribbled on afterwards; read-modify-write through Current()), overlap (2-3 loads in flight with load 0 parked inside its k-th handler; invocation-order replay equals Current(), "
                            "each load's calls contiguous, results explained by one sequential order)."
                            " Part edges: the validity half of the gate at the edge of every clause. The reference predicate is written clause by clause from target.proto and the package's error texts "
                            "(non-empty target name; a target message; at least one address, nil and empty lists alike, whatever else the target carries; a request name that is set; that exact "
                            "string defined in the request map); request keys (the empty and the blank one included), credentials with any subset of fields, duplicate addresses and target names "
                            "differing only in case or spaces are valid. Configurations put ONE field on such an edge and, deliberately, the neighbouring entry a careless reading would be satisfied "
                            "by: an unset request name next to a request under the empty key, a name in another case / with spaces next to the exact one (and the key varied while the targets keep "
                            "the name), the empty target name with a valid / nil / empty value, a nil or empty target message next to the same name in another spelling, no address next to "
                            "credentials and dialer, an address list present without entry; as a relative edit of the current configuration, as a complete configuration, as the base, plain, through "
                            "the text format and with empty maps present. Every offered configuration also goes to Validate, NewConfigWithBase and the first Load of a fresh Config, which must give "
                            "one verdict (a refusal without effect, an acceptance with Current() == the configuration and one Add per target). Clauses the documentation leaves open are labelled and "
                            "not judged: an address that is the empty or a blank string, and request CONTENT below what target.proto asks for (nil, empty, poll arm, no / empty subscription list, no "
                            "origin, ONCE) - there the code's verdict is followed and everything else (stale revision refused, no effect of a refusal, exact announcement, agreement of the entry "
                            "points) is still demanded."),
                technique="; a clause-by-clause reference validity predicate probed at its edges through every validating entry point",
                level_note="; part edges trusts the ~40-line reading of the documentation in targetprop/edges.go (which clauses are decided, which are left open)",
                rule=(" edges: cases are 1-10 loads (and possibly a base) of such configurations; non-trivial = some offered configuration combined an invalidating edge value with a second edge "
                      "value (invalidating, or valid on its own) and some load of the case was applied")),
    "C18": dict(level_text=(" Further: the query kind of every Subscribe (Stream, Poll, Once, Unknown, invalid queries). Part real: the real client/gnmi transport against an in-process gRPC server: "
                            "set-ups that fail after a successful dial, traps that cancel or Close between dial, RPC start and first Send, repeated Subscribe/Close on one object."
                            " Added (seeds M, N): (1) every exported entry point of the client is a step of parts lifetime and entry (harness/clientprop/entry.go lists them): Poll and Impl()/Synced()/Leaves() are "
                            "issued on goroutines of their own at generated instants relative to Subscribe and Close - before any Subscribe, on STREAM and POLL queries, while a reconnecting Subscribe is in its "
                            "backoff or connecting again, while a stopped Subscribe unwinds, after Close, after the context ended - over transports whose calls BLOCK as a gRPC stream write does when the peer has "
                            "stopped reading: Impl.Poll accepted / failing / accepted after 1 unit - RetryMaxDelay+1 / blocked until the transport is closed or its context ends / until it is closed only; "
                            "Impl.Subscribe taking 1-4 units or parked until its context ends. Part entry aims at this (POLL query, streams that end after their data like a POLL round, stalling poll writes, "
                            "steps mostly Poll/Impl around the backoff). Nothing is demanded of Poll or Impl beyond ErrClientInit before the first Subscribe: the unchanged clauses are judged with those calls in "
                            "flight - Subscribe and Close keep their bound (a Poll blocked inside the transport must not keep Close from returning once Close has closed the transport), an unclosed client "
                            "resubscribes after every ended attempt, callback discipline. A goroutine of the client left waiting for a mutex while every other goroutine of the case is blocked (a lock held across "
                            "a blocking call) is class lock-deadlock: decided structurally from the goroutine dump (no goroutine running or runnable, at least one on a lock, two identical looks), the bubble is "
                            "abandoned so that rapid can shrink the case. (2) The SHAPE of the context of every Subscribe call of parts random, lifetime and entry: cancel function / own deadline / deadline "
                            "of the parent of a WithCancel child / deadline under WithValue / deadline that is never reached plus cancel function / value plus cancel function / WithTimeout child of a parent "
                            "that is cancelled; deadlines pass in virtual time before Subscribe, during the initial or a later connect, inside Impl.Subscribe, before the first message, while streaming, in a "
                            "backoff, after Subscribe returned; a cancel step may come before the deadline. The end of the context by deadline is judged exactly like a call of the cancel function (the "
                            "harness classifies the situation 1 ns before the deadline, an instant nothing else of the case occupies); Close afterwards must return too."),
                technique="; Poll / Impl / Synced / Leaves as steps of the schedule over transports whose poll and subscription writes block; generated shapes of the caller's context (deadlines in virtual time); lock-deadlock verdict from the goroutine dump",
                rule=" entry: cases as lifetime (profile entry); non-trivial = the client was closed, or resubscribed, while a poll request was blocked inside the transport",
                level_note=("; in part real a call that does not return within 30 s of real time is inconclusive, never a violation"
                            "; not generated: two Poll calls at once on a POLL query and Poll while an attempt reads the stream (Poll reads the stream itself; neither is documented as allowed - such steps are "
                            "skipped and labelled), poll rounds that deliver data, an Impl.Close that takes virtual time (BaseClient calls it under its mutex: any contender would wait for that mutex and a "
                            "synctest clock cannot advance then), Impl.Subscribe that blocks under a plain client (nothing can interrupt it there); the error value Subscribe returns when its context ended is not judged; "
                            "the look at the goroutine dump is triggered after 1.5 s of real time without the case finishing - the trigger is not the verdict, a slow case has a runnable goroutine and is left alone; "
                            "context shapes are not varied in part real (every hang there is inconclusive by construction)")),
    "C19": dict(level_text=" Further: every conversion is run twice on the same arguments before the concurrent phase (sequential determinism), which also catches conversions that modify their inputs."),
    "C20": dict(level_text=(" Part edges: initial timestamps at the edges of the int64 range and at 31/32/62/63-bit distances, in every listing order. All parts: configurations dressed with the fields the "
                            "target ignores and with the generator oneof (empty random{} block, mirrored seed/values); the Client's output equals queue.New's, a second Client on a deep-equal Config agrees.")),
}
# round 5 (seeds I, J)
EXT3 = {
    "C16": dict(level_text=" Part default: the Manager built by NewManager (its dialer is the real grpc.DialContext) over a transport that accepts and stays silent; requests with "
                           "background, cancellable and expiring contexts, cancellations after the hand-out, releases in any order; a handed-out channel is never SHUTDOWN while a holder has not "
                           "released it, all holders of an address share it, the last release closes it, a request with a done context holds nothing."),
    "C18": dict(technique=("; every optional field of client.Query and every nil / given combination of the two client.Reconnect callbacks as generated dimensions; real-transport subscriptions ended "
                           "through their context, decided by a structural quiescence verdict (goroutine states and socket queues of the process) instead of a time guard"),
                level_text=(" Added (seeds O, P): (1) the constructor arguments of client.Reconnect are a dimension of every part that builds a reconnecting client (random, lifetime, entry, types, content, "
                            "real): both callbacks (half of the cases), none, only disconnect, only reset (a sixth each); one shared judge (harness/clientprop/callbacks.go) demands the discipline of the "
                            "callbacks that were GIVEN - disconnect once per ended attempt; reset exactly once between the end of an attempt and the begin of the next, none before the first attempt - a nil "
                            "one is simply absent; a panic of Subscribe / Close / Poll is recovered on the calling goroutine and reported as class panic (shrinkable) instead of killing the process. "
                            "(2) Every field of client.Query (harness/clientprop/realquery.go lists them and where each is generated): part real draws per Subscribe step 0-4 of Extra, Credentials, Replica, "
                            "UpdatesOnly, AddressChains, Encoding, empty Target, SubReq besides / instead of Queries, ProtoHandler instead of NotificationHandler (BaseClient), Timeout unset, and - plain "
                            "clients - Query.TunnelConn (a TCP connection made by the harness, with or without Addrs); the types Poll and Once; a fifth of the cases run the server with TLS and every query "
                            "with Query.TLS; parts random / lifetime / entry draw the same options (plus TLS and a tunnel connection, kind tunnel-no-addrs) over the scripted transport, where client.go itself "
                            "reads them (Validate, Destination). An option never makes an invalid query valid; nothing about the options is judged beyond the unchanged clauses. "
                            "(3) Part real: HOW a subscription ends - the shapes of the caller's context of half A (cancel function, value, parent, own / parent / wrapped deadline of 0-40 ms real time) and "
                            "not only Close, against servers that hold the stream open and QUIET or are MID-BURST (a gate opened by the step: the handler sends back to back until the stop action has been "
                            "issued, then 4-64 messages more, then stays quiet); a profile (a third of the cases) aims at exactly this. Every call whose context has ended is awaited BEFORE the closing "
                            "Close (which would end the stream by closing the connection); one case in four keeps the older race. The clause 'Subscribe returns once its context has ended / its reconnecting "
                            "client was closed' is decided structurally (harness/clientprop/realquiet.go): after 20 ms the harness LOOKS at the process every 2 ms; three consecutive looks that find it "
                            "quiescent - every goroutine parked on a channel / select / lock / the network poller, none running, runnable, in a system call, in time.Sleep, in a dial or in a harness trap; "
                            "every TCP socket of the case LISTEN / ESTABLISHED / TIME_WAIT with empty send and receive queues (/proc/self/net/tcp) before and after the goroutines were read; the trace not "
                            "growing - while the stopped call has not returned are class stop-ignored (close-blocks for the closing Close); the message says where the Subscribe goroutine is parked. Sound "
                            "because every way the news of a stop action travels (a goroutine made runnable, bytes in a socket, the backoff sleep) is visible in such a look, so the unchanged client is "
                            "never quiescent between stop action and return; a merely slow process is not quiescent and is looked at again; a label records any quiescent look that was followed by a "
                            "return (never seen). The 30 s guard (INCONCLUSIVE) remains for everything that is not quiescent. Sensitivity (scratch worktree): the seeded changes O, P and six of the "
                            "author's own - context detached for queries with Credentials / a deadline / a ProtoHandler or Poll type in client/gnmi, for UpdatesOnly in BaseClient.Subscribe, disconnect "
                            "dropped when reset is nil, reset called twice when disconnect is nil - are each reported within the quick budget."),
                level_note=("; the hang verdict of part real trusts the goroutine states printed by runtime.Stack and the queue lengths of /proc/self/net/tcp (Linux; if unreadable only the guard remains), and "
                            "that the only timers armed on the judged paths are the backoff sleep, the dial timeout, the harness's traps (all excluded from 'quiescent'), the caller's deadline (awaited first) "
                            "and HTTP/2 keepalive (hours); what the server receives of the query options (metadata, credentials, request fields) is not judged"),
                rule=(" real: non-trivial additionally = a subscription whose server held the stream open (quiet or mid-burst) was ended through its context (cancel function or deadline) and awaited "
                      "without any Close")),
    "C06": dict(technique=("; requests dressed with every field the server does not implement, compared with their undressed twin; virtual time passing between operations"
                           "; the number of entries of a notification (1 - 1100, sampled around 64 / 128 / 1024) as a dimension of the filter, both directions of the 'iff' for every subscriber"),
                rule=(" size: cases are scenarios around one table (1-3 table notifications, 2-7 subscribers or a crowd of 9-130); non-trivial = a notification of 65+ entries meets, at once, a "
                      "subscriber at or above its prefix, one strictly below it that an entry agrees with and one strictly below it that no entry agrees with"),
                level_text=(" Server and atomic parts, a good third / half of the scenarios: every SubscribeRequest field subscribe.go never reads is given arbitrary values, per subscription "
                            "independently - Subscription.mode (TARGET_DEFINED / ON_CHANGE / SAMPLE and numbers outside the enum), sample_interval, heartbeat_interval (1 ns - 1 h, MaxUint64), "
                            "suppress_redundant, Path.target of a subscription path; SubscriptionList.qos, allow_aggregation, use_models, encoding; SubscribeRequest.extension (registered, master "
                            "arbitration, history snapshot / range, commit, depth, config subscription, empty) - so that overlapping / identical / sibling paths of ONE request and of different "
                            "subscribers carry different modes and intervals (a notification reaches one subscriber through two paths of different mode in 8% / 21% of the cases). Judged by the same "
                            "oracles (offered iff compatible, once, trie census, others unaffected) plus: the same scenario without the dressing, run on a second server, must be observed alike step "
                            "by step (offers per notification and subscriber, live RPCs, trie - real code on both sides); after virtual sleeps of 1 ms - 25 h (capped at 1000x the shortest interval "
                            "a request names) and after every subscribe / end nothing may have reached any subscriber; while one notification is handed over no earlier one may be sent again; in "
                            "half of the dressed scenarios all updates carry one value (redundant in the sense of suppress_redundant)."
                            " Part size: TABLE notifications - a prefix of 0-3 elements, rows x columns below it (tall, wide = one or two rows of many columns, square; the row a plain element or a list "
                            "key), 1 - 1100 entries with the counts sampled at 63/64/65/66, 127/128/129, 200, 300, 1000/1024/1025/1100 and in between, atomic or not, all updates / all deletes / split at "
                            "1, 63-65, half / updates plus one or two deletes, in ascending, descending or shuffled order, with repeated paths or one path 65+ times, an entry with '*' as its row, two "
                            "or three such notifications under one prefix and the first one delivered again - against subscribers placed by the POSITION of a cell in the notification (first, last, "
                            "62nd-66th, 126th-129th, ...): at / above the prefix, on the cell, on its row, on a sibling row that is not in the notification, on a column the row does not carry, with '*' "
                            "in the row, column or prefix position, deeper than the cell, under another list name, outside; 1-3 paths per subscriber, 2-7 subscribers, one scenario in twelve a crowd "
                            "of 9-130. Every notification is judged for every live subscriber by the relation of the statement (offered iff some entry agrees, at most once) at the match layer "
                            "(UpdateNotification with the prefix/entry boundary at EVERY position, the empty prefix included), through Server.Subscribe / Server.Update and through a real cache feeding "
                            "the server. The random and server parts also draw notifications of 63-300 entries (a bit under 1% of their scenarios).")),
    "C07": dict(level_text=(" Further (a tenth of the scenarios): writer notifications handed to the exported per-target entry point of ANOTHER target than the one their prefix names "
                            "(cache.GetTarget(x).GnmiUpdate): stored in x's tree, every response built from them still names the prefix target, so a caller authorised for x and denied the named "
                            "target must not be sent them (single-target and all-targets subscriptions alike). 8% of the subscriptions begin with something that is not a request (half-close, Poll, no prefix, no target, "
                            "empty message): with an unusable ACL backend the call must still end Unauthenticated with nothing sent. Part huge: an all-targets subscriber (STREAM / ONCE / POLL) denied a target of "
                            "10000-65537 leaves next to a small allowed one, whole-target refreshes: more denied notifications within one RPC than any 'every N-th' bookkeeping."),
                level_note="; scenarios with such a foreign write are judged by the trace monitors only (nothing denied is ever handed to Send; status codes), convergence is not defined for them"),
    "C12": dict(level_text=(" Every rapid part runs with a generated glog verbosity (-v 0-3) per case: the diagnostics inside `if log.V(n)` blocks format the very messages a peer sent.")),
    "C02": dict(level_text=(" Further: future thresholds that mean 'never reject' (time.Duration(MaxInt64), 2^62, 290 years: every sum of a threshold and a timestamp wraps); values in the deprecated "
                            "Update.value field (bytes + encoding, val unset), in one scenario out of eight for most leaves, so that two such values meet on one leaf at one timestamp. One scenario in twelve (C02/C03 profiles) stores leaves under an element or key value that is literally '*' "
                            "(a catch-all selector is a legal list key); those scenarios carry no delete notifications, because the announcement of such a leaf's removal cannot be told from a wildcard delete.")),
    "C14": dict(level_text=(" Random part, further: the isolation clause as a metamorphic relation - the scenario is run again on a fresh cache with every operation addressed to the other targets left "
                            "out (the clock and the cache-wide refreshes stay), and everything stored and reported for the kept target, its metadata subtree included, must be identical in both "
                            "runs; caches created with a server name or with excluded metadata entries (WithExcludedMeta; also in C03/C15); after Reset every registered metadata value is compared with that of a target just registered with a cache "
                            "of the same options. Part owners (free-running, real scheduler inside a synctest bubble): 2-5 targets each driven by its own goroutine running a sequential script (updates, exact/subtree/glob "
                            "deletes, Reset, Remove, Add, Sync, Connect, ConnectError, queries) plus a refresher goroutine (UpdateMetadata, UpdateSize, Metadata, all-target queries) and 0-2 bystander "
                            "targets; 40 aligned-start rounds per case. Because no operation on one target may change another, under every schedule each target holds after each of its owner's operations "
                            "exactly what the owner's sequential model says, the replay of that target's change feed gives the same values (empty after Reset and Remove), bystanders are unchanged and "
                            "never announced, and every goroutine finishes."),
                level_note=("; owners part: schedules are the real scheduler's (a replay re-runs the scripts for 20x the rounds); a deadlock is reported structurally (vstat.Watchdog: every goroutine of the "
                            "bubble blocked, at least one on a lock, identical twice 5 s apart), never by a timeout"),
                rule=" owners: a case is one set of scripts x 40 rounds; non-trivial = >=2 owners and the scripts contain both a Reset and a Remove."),
    "C19": dict(level_text=(" Further: what a conversion returned belongs to its caller - the TypedValue returned by FromScalar (leaf-list elements included), the slice returned by ToScalar and the "
                            "index returned by ToStrings (spare capacity included) are overwritten before the same input is converted again, and the second result must equal the first.")),
    "C03": dict(level_text=(" Further (also in the C02 profile): a structured 'big fan-out' shape, one case in about two hundred: one notification writes 300-4100 sibling leaves, a later one rewrites "
                            "a few, then a glob / subtree delete whose timestamp lies between the two removes more than a thousand leaves at once and must leave and not announce the newer ones.")),
    "C04": dict(level_text=(" Further: STREAM clients that half-close their sending side (at once or later); the caller going away while the subscription's own walk is inside a queue insertion. "
                            "Part volley (free-running inside a synctest bubble): 2-6 writers update their own leaves at the same instant against an idle STREAM subscriber, 1500 rounds per workload; "
                            "at the quiescent point after every round the subscriber must hold that round's value of every leaf."),
                rule=" volley: a case is one workload; non-trivial = >=2 writers and >=100 rounds completed."),
    "C05": dict(level_text=(" Further: paths of one request that read the same once their index strings are joined with '/' (a/b vs a, b); requests dressed with the fields the server does not "
                            "implement (qos, encoding, per-subscription mode / sample_interval / heartbeat / suppress_redundant, drawn per subscription; also in C04/C07/C08/C14). Part stress "
                            "(free-running, real scheduler inside a synctest bubble): 1-4 client goroutines issue ONCE calls / POLL rounds back to back while one writer goroutine per hot leaf keeps "
                            "updating the leaves they match (value = serial number); every round carries every matching leaf, a static leaf with its value, a hot leaf with a serial number between the "
                            "last update completed before the request and the last one started before its sync arrived; one sync per request, last; ONCE ends with success; glog verbosity 0-3 per workload. Part huge: a ONCE / POLL answer of 9000-65537 leaves queued behind a reader that takes "
                            "1-9000 responses at a time and then reads freely: exactly the matching set, then the sync response. Part foreign (differential): the cache is filled through Cache.GnmiUpdate and "
                            "through the per-target handles Cache.GetTarget(x).GnmiUpdate with prefixes that name x, another registered target, a device's own FQDN, '*' or nothing; a ONCE call and every pass "
                            "of a POLL subscription for (x | '*', path with globs) must send exactly the notifications Cache.Query returns for the same target and path at quiescence - none missing, none "
                            "extra, none twice -, then one sync_response; ONCE then ends with success."),
                level_note="; stress part: schedules are the real scheduler's (a replay re-runs the workload 20 times); a deadlock is reported structurally (vstat.Watchdog), never by a timeout",
                rule=" stress: a case is one workload (20-80 requests per client); non-trivial = >=2 hot leaves and >=20 completed rounds."),
    "C08": dict(level_text=(" Third structured shape (an eighth of the cases): a POLL client that stops reading and keeps sending 1-300 poll triggers (letting a send pass now and then) against an "
                            "unchanging cache, next to other subscribers: what it is sent after its last trigger is bounded by the distinct matching leaves + the response in flight + one sync marker, "
                            "whatever the number of triggers; or it stays away and the next sleep step judges the send timeout of the POLL subscription. "
                            "Part huge: the stalled subscriber is STREAM, ONCE or POLL (the walk of a ONCE/POLL queues the whole target behind a sender blocked from the first response on).")),
    "C20": dict(technique=("; scripted sessions on ONE fake Client / ONE fake Agent (subscriber messages and lifecycle calls at exact positions of the emitted stream, quiescent points of a synctest bubble "
                           "as gates): the trace predicates per generation of the stream, and the metamorphic relation 'a generation equals what a fresh Client sends on an undisturbed subscription'"
                           "; a generator that puts every numeric field of the configuration at the limits of its type, judged by the same predicates with overflow-safe comparisons"),
                level_text=(" Part session: one fake/gnmi.Client lives through a generated script - 1-3 Client.Run calls (STREAM / ONCE / POLL SubscriptionList, or a stream that begins with something "
                            "else: Run must refuse it), and at generated positions of the emitted stream (before anything was read, after k responses, after the sync marker, after the end, "
                            "after Run returned) Poll messages in every mode, further SubscriptionLists, requests without a payload or with an empty oneof arm, the subscriber closing its "
                            "sending side, Client.SetConfig with another of 1-4 generated configurations (more / fewer values, later / earlier timestamps, sync injection on / off), Run again "
                            "after completion; every step is taken while sender and receiver of the Client are parked in the harness's Send / Recv (or wait for a Poll), so positions are exact. "
                            "client.go defines the generations: one per Run for STREAM / ONCE (every later message is an 'invalid event' that is logged and skipped, SetConfig 'will not take effect "
                            "until the queue is drained'), one per polled round for POLL, each of the configuration in force when it began. Every generation is judged by all clauses of the "
                            "statement for ITS configuration (complete when the target had nothing more to send, as a prefix otherwise) and, every random source being seeded, must equal response "
                            "for response the stream of a fresh Client on an equal configuration (82% of the cases); a seeded session run twice must give the same transcript; a Poll in the middle "
                            "of a POLL round (undocumented) only has to admit SOME split into rest-of-old-generation + one complete new generation. Measured on 5000 cases: a Poll reaches a STREAM / "
                            "ONCE subscription while its generation is being sent in 17%, some ignored message does in 24%; a generation is built from a configuration set by SetConfig in 19% "
                            "(later latest timestamp with sync injected in both: 6%); two or more complete generations on one Client in 34% (by Poll 37%, by Run-again 35%); a sixth of the sessions "
                            "is followed by 1-3 subscriptions in a row to one real Agent (stray messages behind the SubscriptionList, polled rounds), each required to equal the in-memory Client. "
                            "Sensitivity (author's mutants, all caught within 130 cases): SetConfig resetting the running generation; receiver cancelling on io.EOF; generator or sync marker or "
                            "latest timestamp cached across resets; a stray SubscriptionList replacing the subscription; a Poll honoured on ONCE; the Agent re-using one Client."
                            " Part numeric: every numeric field of the configuration at the edges of its type - int / uint / double range bounds at MinInt64 / MaxInt64 / 0 / MaxUint64 / 2^63 / "
                            "+-MaxFloat64 / denormals / +-Inf and at +-2^31, 2^32, 2^53, 2^62 give or take a few units, one-point ranges, 2-9 point ranges hugging a limit from either side, ranges between "
                            "two such anchors, uniform ranges exactly as wide as rand.Int63n accepts (2^63-2); cumulative value deltas 0, +-1, equal, of opposite signs, positive-only, negative-only, "
                            "about the width of the range (w-1, w, w+1, 2w), 2^31 ... MaxInt64 / MinInt64, delta spans up to 2^63-2 (doubles: denormal steps, 1e300, MaxFloat64, +Inf); timestamp deltas "
                            "0 / 1 / 2^31 / 2^32 / 2^62 / MaxInt64 and the widest spans, the initial timestamp placed so that the last step of the pulled prefix reaches MaxInt64 exactly or stays below; "
                            "repeat 0 / 1 / 2 / 3-8 / 255-257 (pulled to the end) / 65537 ... MaxInt32 (prefix); option lists of one element and of type limits; seeds at the int64 limits; one case in eight "
                            "breaks a precondition AT an edge (must be an error, never a panic). Same oracles as part random; the judge decides step and due-date comparisons without forming int64 sums or "
                            "differences (a wrapped intermediate can neither excuse nor accuse). Measured on 3000 cases: some cumulative int range whose value+delta is not an int64 in 18%, bound-delta "
                            "not an int64 in 14%, an int range at MinInt64 / MaxInt64 14% / 16%, delta about / over the width 23% / 22%, uint range above or across 2^63 9%, double bounds at MaxFloat64 11%, "
                            "timestamp delta >= 2^62 22% (MaxInt64 9%, span at the limit 13%), a long repeat 17%, one-option list 24%, an int64 limit emitted 26%, timestamp MaxInt64 emitted 7%. "
                            "Sensitivity (author's mutants, each caught only by this part, within the quick budget): uint clamp written as value+delta > maximum (wraps next to MaxUint64); timestamp step "
                            "drawn as Int63n(delta_max+1) clamped from below (panics for delta_max = MaxInt64); repeat countdown compared in 16 bits (65537 ends after one emission); double clamp applied "
                            "to cumulative ranges only (a uniform range whose width overflows float64 emits +Inf)."),
                level_note=("; session part: disable_eof, messages that are fatal for a POLL subscription (or the end of the subscriber's sending side) while the target waits for a Poll - Client.Run then never "
                            "returns on the unchanged tree -, nil messages, SetConfig(nil) and Run on a Client that cancelled itself are not generated; goroutines of the Client that stay blocked "
                            "after every stream was torn down are reported structurally (synctest bubble exit), never by a timeout; Agent sessions: 30 s patience or transport error = inconclusive label"),
                rule=(" session: a case is one script on one Client (plus, for a sixth, subscriptions to one Agent); non-trivial = some generation was judged, a configuration has >=2 values, and "
                      "an ignored message arrived while a generation was being sent, or one Client completed >=2 generations, or a configuration set by SetConfig came into force."
                      " numeric: cases and the non-trivial rule as in part random (1-5 values, five in six drawn with their numbers at type limits); the num-* labels record which edge classes a case carries.")),
}
for _pid, _ex in list(EXT2.items()) + list(EXT3.items()):
    EXT.setdefault(_pid, {})
    for _k, _v in _ex.items():
        EXT[_pid][_k] = EXT[_pid].get(_k, "") + _v
for _pid, _ex in EXT.items():
    for _k in ("technique", "level_text", "level_note", "rule"):
        if _k in _ex:
            CHECKS[_pid][_k] = CHECKS[_pid][_k] + _ex[_k]


NOT_APPLICABLE = [
]

# commits in /repo that add the guarded hooks (build tag verif)
HOOK_COMMITS = ["902e845", "5602316"]


def ENGINE_OF(pid, part=None):
    cfg = CHECKS[pid]
    for p in cfg["parts"]:
        if p["name"] == part and "engine" in p:
            return p["engine"]
    return cfg["engine"]
