"""Per-property configuration of the driver: which engine package, which test
functions (parts), how many generated cases per tier and in how many parallel
processes, and the stated non-triviality rule that the engine evaluates per case."""

SYNCTEST_ASSUMPTION = ("engine binary is built with go1.26.8 (testing/synctest virtual time); /repo's own go.mod says go 1.22, "
                       "so production timer-channel semantics differ; the code under test only uses NewTimer/Reset/Stop/Sleep")
COMMON = ["the harness module replaces github.com/openconfig/gnmi with /repo's working tree, built with -tags verif",
          "rapid v1.3.0 generators; every random choice is a function of VERIF_SEED"]

CHECKS = {
    "C09": dict(
        engine="ctreeprop",
        technique="model-based property testing (rapid) + exhaustive small-scope enumeration against a prefix-free map model",
        level_text=("Every sequence of <=4 ops (20-op alphabet) and <=3 ops (73-op alphabet) over a two-letter path alphabet is enumerated, "
                    "and tens of thousands of random sequences of up to 40 ops (depth 4, three letters, relative addressing, retained handles) "
                    "are compared after every op against a reference map on the full observation set the property lists "
                    "(GetLeafValue/GetLeaf/Get/IsBranch/Children/Query for every pattern/Walk/WalkSorted/return of Delete*). "
                    "Bounded exploration: exhaustive only inside the stated small scope."),
        level_note="trusts the 150-line reference model and the match relation derived from Query's documentation; values are ints; no concurrency (that is C10)",
        rule=("cases are operation sequences on an empty ctree.Tree compared step by step with a prefix-free map model "
              "(exhaustive: all sequences of <=4 ops over 20 ops and <=3 ops over 73 ops on paths over {a,b}, patterns over {a,b,*}; "
              "random: 1-40 ops, depth<=4 over {a,b,c}, relative addressing, retained leaf handles). "
              "non-trivial = the sequence contains a failed Add, or a successful Add beneath a branch that an earlier delete pruned; "
              "distinct = distinct hash of the op sequence"),
        assumptions=COMMON + ["stored values are non-nil ints (nil is the tree's 'empty' sentinel)", "Add/Get paths contain no '*' (documented precondition)"],
        parts=[
            dict(name="exhaustive", run="TestC09Exhaustive", rapid=False),
            dict(name="random", run="TestC09Random", checks=dict(quick=6000, thorough=40000), shards=dict(quick=1, thorough=16)),
        ],
    ),
}


NOT_APPLICABLE = [
]

# commits in /repo that add the guarded hooks (build tag verif)
HOOK_COMMITS = ["902e845", "5602316"]


def ENGINE_OF(pid, part=None):
    cfg = CHECKS[pid]
    for p in cfg["parts"]:
        if p["name"] == part and "engine" in p:
            return p["engine"]
    return cfg["engine"]
