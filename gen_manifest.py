#!/usr/bin/env python3
"""Regenerates MANIFEST.json from checks_table.py (single source of truth)."""
import json, os, subprocess
from checks_table import CHECKS, NOT_APPLICABLE, HOOK_COMMITS

ROOT = os.path.dirname(os.path.abspath(__file__))
checks = []
for pid in sorted(CHECKS):
    c = CHECKS[pid]
    checks.append(dict(
        property_id=pid,
        quick_cmd=f"./check {pid} quick",
        thorough_cmd=f"./check {pid} thorough",
        evidence_file=f"/verif/evidence/{pid}.json",
        replay_cmd_template="./check --replay {path}",
        engine=c["engine"],
        level_claimed=dict(category="exploration", text=c["level_text"], design_ref=c.get("design_ref", f"DESIGN.md section 6, {pid}")),
        level_note=c["level_note"],
        technique=c["technique"],
    ))
engines = {}
for pid, c in CHECKS.items():
    for p in c["parts"]:
        e = p.get("engine", c["engine"])
        engines.setdefault(e, set()).add(pid)
claimed = set(CHECKS)
na = list(NOT_APPLICABLE)
for line in open(os.path.join(ROOT, "properties.jsonl")):
    p = json.loads(line)
    if p["id"] not in claimed and not any(x["property_id"] == p["id"] for x in na):
        na.append(dict(property_id=p["id"], reason="no check registered yet in this snapshot of /verif: the engine designed in DESIGN.md section 6 is still being built; the technique applies"))
m = dict(
    version=1,
    setup_cmd="./setup.sh",
    hooks=dict(
        guard="verif",
        enable="Go build tag: engines are built with `go1.26.8 test -c -tags verif` in /verif/harness, whose go.mod replaces github.com/openconfig/gnmi with /repo",
        baseline_off_cmd="cd /repo && go test -vet=off -count=1 -timeout 25m ./...",
        source_commits=HOOK_COMMITS,
        add_only=True,
    ),
    engines=[dict(name=e, path=f"/verif/harness/{e}", serves_properties=sorted(ps),
                  kind_free_text="Go test package: rapid property-based generators + explicit oracle (see DESIGN.md)") for e, ps in sorted(engines.items())],
    checks=checks,
    notes=("Driver ./check <id> <tier>; exit 0 held / 1 violation (VIOLATION line) / 2 inconclusive or infrastructure. "
           "known_findings.json lists fixed and open findings; found/ receives replay files of new violations."),
    not_applicable=na,
)
json.dump(m, open(os.path.join(ROOT, "MANIFEST.json"), "w"), indent=1)
print("wrote MANIFEST.json with", len(checks), "checks")
