#!/usr/bin/env python3
"""Verify a seeded change written by an independent sub-agent and store it under /verif/seeded/.

  tools/seed_verify.py <Cxx> <A|B> [--tier quick|thorough] [--no-suite] [--checks Cyy,Czz]

Steps (all in scratch directories under /tmp, removed afterwards; /repo is never touched):
  1. apply SEED/<X>/patch.diff to a fresh worktree of /repo HEAD; go build ./... ; go vet of touched packages
  2. run the repository's existing test suite with the change (go test ./... without the SEED dirs)
  3. run the demonstration with the change (must fail) and without it (must pass)
  4. run the registered check(s) of the property against the changed tree (tools/mutcheck.sh)
  5. write seeded/<Cxx>-<X>/{patch.diff, demo files, meta.json}
"""
import json, os, re, shutil, subprocess, sys, time

ROOT = os.path.dirname(os.path.dirname(os.path.abspath(__file__)))
ENV = dict(os.environ, GOFLAGS="-mod=mod", GOPROXY="off", GOSUMDB="off", GOTOOLCHAIN="local")


def sh(cmd, cwd=None, timeout=3600, env=ENV):
    p = subprocess.run(cmd, cwd=cwd, env=env, shell=isinstance(cmd, str), stdout=subprocess.PIPE, stderr=subprocess.STDOUT, text=True, timeout=timeout)
    return p.returncode, p.stdout


def main():
    a = sys.argv[1:]
    pid, x = a[0], a[1]
    tier = a[a.index("--tier") + 1] if "--tier" in a else "quick"
    checks = a[a.index("--checks") + 1].split(",") if "--checks" in a else [pid]
    src = f"/tmp/seedwork/wt-{pid}/SEED/{x}"
    if not os.path.isdir(src):
        print("no such seed", src)
        sys.exit(2)
    tag = f"{pid}-{x}-{os.getpid()}"
    wt = f"/tmp/sv-wt-{tag}"
    meta = dict(property=pid, seed=x, ran=[], verified=False)
    meta["author_meta"] = open(os.path.join(src, "meta.txt")).read() if os.path.exists(os.path.join(src, "meta.txt")) else ""
    out_dir = os.path.join(ROOT, "seeded", f"{pid}-{x}")
    try:
        rc, o = sh(["git", "-C", "/repo", "worktree", "add", "-q", "--detach", wt, "HEAD"])
        assert rc == 0, o
        base = sh(["git", "-C", "/repo", "rev-parse", "--short", "HEAD"])[1].strip()
        meta["repo_commit"] = base
        patch = os.path.join(src, "patch.diff")
        rc, o = sh(["git", "apply", "--3way", patch], cwd=wt)
        if rc != 0:
            rc, o = sh(["git", "apply", patch], cwd=wt)
        meta["ran"].append(dict(cmd="git apply patch.diff (on /repo HEAD %s)" % base, rc=rc))
        if rc != 0:
            meta["note"] = "patch does not apply on the current /repo HEAD: " + o[-500:]
            raise SystemExit
        sh(["git", "reset", "-q"], cwd=wt)
        # the patch as it applies to the current HEAD (a 3-way apply may have shifted or merged hunks)
        eff = sh("git diff -- . ':(exclude)SEED'", cwd=wt)[1]
        if eff.strip() and eff.strip() != open(patch).read().strip():
            effp = f"/tmp/sv-eff-{tag}.diff"
            open(effp, "w").write(eff)
            meta["patch_rebased"] = "patch.diff is the author's change re-applied (git apply --3way) on /repo HEAD %s; the author's file is patch.original.diff" % base
            orig_patch, patch = patch, effp
        files = [l.split()[-1] for l in sh(["git", "status", "--short"], cwd=wt)[1].splitlines() if l.strip() and not l.strip().endswith("SEED/")]
        meta["touched"] = files
        rc, o = sh("go build ./...", cwd=wt)
        meta["ran"].append(dict(cmd="go build ./...", rc=rc))
        if rc != 0:
            meta["note"] = "does not compile: " + o[-800:]
            raise SystemExit
        # 2. existing suite
        if "--no-suite" not in a:
            t0 = time.time()
            rc, o = sh("go test -count=1 -vet=off $(go list ./... | grep -v /SEED/) 2>&1 | tail -60", cwd=wt, timeout=1800)
            failed = [l for l in o.splitlines() if l.startswith("FAIL") or l.startswith("--- FAIL")]
            meta["ran"].append(dict(cmd="go test -count=1 -vet=off ./... (existing suite, with the change)", failed=failed, wall_s=round(time.time() - t0)))
            # The repository's own timing tests (cli, subscribe) fail now and then on an overloaded machine, with or
            # without any change: packages that failed are run again, alone, up to three times.
            pkgs = sorted({l.split()[1] for l in failed if l.startswith("FAIL\t") or l.startswith("FAIL ")} - {""})
            pkgs = [p_ for p_ in pkgs if p_.startswith("github.com/")]
            if failed and pkgs:
                still = list(pkgs)
                for attempt in range(3):
                    rc2, o2 = sh("go test -count=1 -vet=off " + " ".join(still) + " 2>&1 | tail -30", cwd=wt, timeout=1800)
                    still = sorted({l.split()[1] for l in o2.splitlines() if l.startswith("FAIL\t")})
                    meta["ran"].append(dict(cmd="go test -count=1 -vet=off %s (re-run %d of the packages that failed, with the change)" % (" ".join(pkgs), attempt + 1), failed=still))
                    if not still:
                        break
                if not still:
                    meta["suite_note"] = "the first full-suite run with the change failed in %s while the machine was overloaded; those packages passed when run again with the change" % ", ".join(x.rsplit("/", 1)[-1] for x in pkgs)
                    failed = []
            meta["suite_passes_with_change"] = not failed
        # 3. demonstration
        demo_dir = os.path.join(wt, "SEED", x)
        os.makedirs(demo_dir, exist_ok=True)
        demos = [f for f in os.listdir(src) if f.endswith(".go")]
        for f in demos:
            shutil.copy(os.path.join(src, f), demo_dir)
        for sub in ("demo",):
            if os.path.isdir(os.path.join(src, sub)):
                shutil.copytree(os.path.join(src, sub), os.path.join(demo_dir, sub), dirs_exist_ok=True)
        into = a[a.index("--demo-into") + 1] if "--demo-into" in a else None
        if into:
            # package-internal demonstration: copied next to the package's own files
            shutil.rmtree(demo_dir, ignore_errors=True)
            for f in demos:
                shutil.copy(os.path.join(src, f), os.path.join(wt, into, "seed_" + x.lower() + "_" + f))
        tags = "-tags verif" if "verifhook" in "".join(open(os.path.join(src, f)).read() for f in demos) else ""
        race = "" if "--no-race" in a else "-race" if re.search(r"-race", meta["author_meta"]) and "race" in meta["author_meta"].lower() and "data race" in meta["author_meta"].lower() else ""
        demo_cmd = f"go test -count=1 {tags} {race} ./SEED/{x}/..."
        if into:
            demo_cmd = f"go test -count=1 {tags} {race} -run 'TestSeed' ./{into}/"
        rc_with, o_with = sh(demo_cmd, cwd=wt, timeout=1200)
        meta["ran"].append(dict(cmd=demo_cmd + "   (with the change)", rc=rc_with, tail=o_with[-600:]))
        sh(["git", "checkout", "--", "."], cwd=wt)
        rc_without, o_without = sh(demo_cmd, cwd=wt, timeout=1200)
        meta["ran"].append(dict(cmd=demo_cmd + "   (without the change)", rc=rc_without, tail=o_without[-300:]))
        meta["demo_fails_with_change"] = rc_with != 0
        meta["demo_passes_without_change"] = rc_without == 0
        meta["verified"] = bool(meta["demo_fails_with_change"] and meta["demo_passes_without_change"] and meta.get("suite_passes_with_change", True))
        # 4. our checks
        meta["checks"] = {}
        for cid in checks:
            rc, o = sh([os.path.join(ROOT, "tools", "mutcheck.sh"), patch, cid, tier], cwd=ROOT, timeout=7200)
            lines = [l for l in o.splitlines() if re.search(r"VIOLATION|class=|OK property|INCONCLUSIVE|INFRA|mutcheck:", l)]
            meta["checks"][cid] = dict(tier=tier, exit=rc, detected=(rc == 1), output=[l[:400] for l in lines[:8]])
    except SystemExit:
        pass
    finally:
        sh(["git", "-C", "/repo", "worktree", "remove", "--force", wt])
        shutil.rmtree(wt, ignore_errors=True)
    os.makedirs(out_dir, exist_ok=True)
    # keep what earlier runs established: the suite result (when this run skipped it) and the detection history
    prev_path = os.path.join(out_dir, "meta.json")
    if os.path.exists(prev_path):
        try:
            prev = json.load(open(prev_path))
        except Exception:
            prev = {}
        if "suite_passes_with_change" not in meta and "suite_passes_with_change" in prev:
            meta["suite_passes_with_change"] = prev["suite_passes_with_change"]
            meta["ran"] += [r for r in prev.get("ran", []) if "existing suite" in r.get("cmd", "")]
            meta["verified"] = bool(meta.get("demo_fails_with_change") and meta.get("demo_passes_without_change") and meta["suite_passes_with_change"])
        meta["history"] = prev.get("history", [])
        for k in ("suite_note",):
            if k in prev:
                meta[k] = prev[k]
        if prev.get("checks") and not meta["history"]:
            meta["history"].append({c: dict(detected=v.get("detected"), tier=v.get("tier")) for c, v in prev["checks"].items()} | {"verif_commit": prev.get("verif_commit", "?")})
    else:
        meta["history"] = []
    meta["verif_commit"] = sh(["git", "-C", ROOT, "rev-parse", "--short", "HEAD"])[1].strip()
    if meta.get("checks"):
        meta["history"].append({c: dict(detected=v.get("detected"), tier=v.get("tier")) for c, v in meta["checks"].items()} | {"verif_commit": meta["verif_commit"]})
    for f in os.listdir(src):
        p = os.path.join(src, f)
        if os.path.isfile(p) and (f.endswith(".go") or f in ("patch.diff", "meta.txt", "patch.original.diff")):
            shutil.copy(p, os.path.join(out_dir, f))
    if meta.get("patch_rebased") and os.path.exists(patch):
        if not os.path.exists(os.path.join(out_dir, "patch.original.diff")):
            shutil.copy(os.path.join(src, "patch.diff"), os.path.join(out_dir, "patch.original.diff"))
        shutil.copy(patch, os.path.join(out_dir, "patch.diff"))
        os.remove(patch)
    json.dump(meta, open(os.path.join(out_dir, "meta.json"), "w"), indent=1)
    det = {k: v["detected"] for k, v in meta.get("checks", {}).items()}
    print(f"{pid}-{x}: verified={meta['verified']} suite_ok={meta.get('suite_passes_with_change')} demo_with_fails={meta.get('demo_fails_with_change')} demo_without_passes={meta.get('demo_passes_without_change')} detected={det} {meta.get('note', '')[:200]}")


if __name__ == "__main__":
    main()
