#!/bin/sh
# tools/sweep.sh <tier> <seed> <ids...> : run checks one after another, print one line each
TIER=$1; shift; SEED=$1; shift
for id in "$@"; do
  out=$(VERIF_SEED=$SEED ./check $id $TIER 2>&1); rc=$?
  echo "== $id $TIER seed=$SEED rc=$rc :: $(echo "$out" | grep -E 'OK property|VIOLATION|INCONCLUSIVE|KNOWN' | head -3 | cut -c1-300 | tr '\n' '|')"
  echo "$out" | grep -A2 VIOLATION | head -8 | cut -c1-500
done
