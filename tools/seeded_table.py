#!/usr/bin/env python3
"""Prints a markdown table of the seeded changes from seeded/*/meta.json."""
import json, os, re
ROOT = os.path.dirname(os.path.dirname(os.path.abspath(__file__)))
rows = []
for d in sorted(os.listdir(os.path.join(ROOT, "seeded"))):
    p = os.path.join(ROOT, "seeded", d, "meta.json")
    if not os.path.exists(p):
        continue
    m = json.load(open(p))
    am = m.get("author_meta", "")
    first = re.split(r"(?<=[.!?])\s", am.strip().replace("\n", " "))[0][:170] if am else ""
    det = "; ".join(f"{k} {v['tier']}: {'caught' if v['detected'] else 'MISSED'}" for k, v in m.get("checks", {}).items())
    hist = m.get("history", "")
    if isinstance(hist, list):
        # detection history: first result per check, if it differs from the current one
        notes = []
        for c, v in m.get("checks", {}).items():
            firsts = [h[c]["detected"] for h in hist if isinstance(h, dict) and c in h and isinstance(h[c], dict)]
            if firsts and firsts[0] is False and v.get("detected"):
                notes.append(f"{c}: first MISSED, caught after the engine was extended")
        hist = "; ".join(notes)
    for k in ("note", "suite_note", "patch_rebased"):
        if m.get(k):
            hist = (hist + "; " if hist else "") + str(m[k])[:160]
    rows.append(f"| {d} | {', '.join(m.get('touched', []))[:60]} | {first} | {'yes' if m.get('verified') else 'NO'} | {det}{(' — ' + hist) if hist else ''} |")
print("| seed | touches | what (author's first sentence) | verified (suite passes, demo fails with / passes without) | our check |")
print("|---|---|---|---|---|")
print("\n".join(rows))
