#!/usr/bin/env python3
"""Prints a markdown table of the seeded changes from seeded/*/meta.json."""
import json, os, re
ROOT = os.path.dirname(os.path.dirname(os.path.abspath(__file__)))
rows = []
for d in sorted(os.listdir(os.path.join(ROOT, "seeded"))):
    p = os.path.join(ROOT, "seeded", d, "meta.json")
    if not os.path.exists(p):
        continue
    m = json.load(open(p))
    am = m.get("author_meta", "")
    first = re.split(r"(?<=[.!?])\s", am.strip().replace("\n", " "))[0][:170] if am else ""
    det = "; ".join(f"{k} {v['tier']}: {'caught' if v['detected'] else 'MISSED'}" for k, v in m.get("checks", {}).items())
    hist = m.get("history", "")
    rows.append(f"| {d} | {', '.join(m.get('touched', []))[:60]} | {first} | {'yes' if m.get('verified') else 'NO'} | {det}{(' — ' + hist) if hist else ''} |")
print("| seed | touches | what (author's first sentence) | verified (suite passes, demo fails with / passes without) | our check |")
print("|---|---|---|---|---|")
print("\n".join(rows))
