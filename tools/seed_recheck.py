#!/usr/bin/env python3
"""Re-run the registered check(s) against seeded changes already stored under seeded/ and record the result.

  tools/seed_recheck.py <Cxx-X> [<Cyy-Y> ...] [--tier quick|thorough] [--checks Czz]

Only the "checks"/"history"/"verif_commit" entries of seeded/<id>/meta.json are updated (what seed_verify.py
established about the change itself - it applies, the suite passes, the demonstration fails with it - is kept)."""
import json, os, re, subprocess, sys

ROOT = os.path.dirname(os.path.dirname(os.path.abspath(__file__)))


def main():
    a = sys.argv[1:]
    tier = a[a.index("--tier") + 1] if "--tier" in a else "quick"
    only = a[a.index("--checks") + 1].split(",") if "--checks" in a else None
    ids = [x for x in a if re.fullmatch(r"C\d\d-[A-Z]", x)]
    commit = subprocess.run(["git", "-C", ROOT, "rev-parse", "--short", "HEAD"], capture_output=True, text=True).stdout.strip()
    for sid in ids:
        d = os.path.join(ROOT, "seeded", sid)
        mp = os.path.join(d, "meta.json")
        m = json.load(open(mp))
        checks = only or list(m.get("checks", {}).keys()) or [sid[:3]]
        m.setdefault("history", [])
        if m.get("checks") and not m["history"]:
            m["history"].append({c: dict(detected=v.get("detected"), tier=v.get("tier")) for c, v in m["checks"].items()} | {"verif_commit": m.get("verif_commit", "?")})
        for cid in checks:
            p = subprocess.run([os.path.join(ROOT, "tools", "mutcheck.sh"), os.path.join(d, "patch.diff"), cid, tier], cwd=ROOT, stdout=subprocess.PIPE, stderr=subprocess.STDOUT, text=True)
            lines = [l for l in p.stdout.splitlines() if re.search(r"VIOLATION|class=|OK property|INCONCLUSIVE|INFRA|mutcheck:", l)]
            m.setdefault("checks", {})[cid] = dict(tier=tier, exit=p.returncode, detected=(p.returncode == 1), output=[l[:400] for l in lines[:8]])
        m["verif_commit"] = commit
        m["history"].append({c: dict(detected=v.get("detected"), tier=v.get("tier")) for c, v in m["checks"].items()} | {"verif_commit": commit})
        json.dump(m, open(mp, "w"), indent=1)
        print(sid, {k: v["detected"] for k, v in m["checks"].items()}, flush=True)


if __name__ == "__main__":
    main()
