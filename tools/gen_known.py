#!/usr/bin/env python3
"""Regenerates known_findings.json from the list below (commit ids looked up in /repo by subject)."""
import json, subprocess, os
ROOT = os.path.dirname(os.path.dirname(os.path.abspath(__file__)))

def commit(subject):
    out = subprocess.run(["git", "-C", "/repo", "log", "--format=%h", "-n1", "--fixed-strings", "--grep=" + subject], capture_output=True, text=True).stdout.strip()
    assert out, subject
    return out

FIXED = [
    # id, properties (first = the one named in the fixed: line), commit subject, class, what failed
    ("D4", ["C09", "C12"], "fix: ctree delete on an empty tree removes nothing", "delete-on-empty-root",
     "Delete(nil) / Delete([*]) on an empty tree returned the phantom leaf [[]] and called the callbacks with a nil value (the cache panicked on a wildcard delete for a target without data)"),
    ("D5", ["C09", "C02"], "fix: ctree delete matches the same leaves as a query for that path", "delete-glob-past-leaf",
     "Delete([*,a]) / Delete([a,*,b]) removed a leaf stored at a shorter path that Query with the same path does not report"),
    ("D13", ["C02", "C15"], "fix: cache tracks the latest target timestamp for every path encoding", "latest-ts-elem-only",
     "an accepted update whose path uses the deprecated element encoding or lives in the prefix did not advance the latest timestamp: latestTimestamp stayed unset and the future threshold was never applied"),
    ("D3", ["C03"], "fix: cache delete notifications no longer write into the stored prefix", "delete-aliases-shared-prefix",
     "deleting several leaves stored through one shared prefix object with spare capacity announced the last leaf's path once per leaf and wrote into the caller's prefix"),
    ("D16", ["C03", "C04"], "fix: cache does not suppress a plain update that replaces an atomic leaf", "suppress-over-atomic",
     "a plain update equal to the first inner value of the atomic container it replaces was stored but withheld from the change feed"),
    ("D11", ["C15"], "fix: cache leaf counters ignore deleted metadata leaves", "meta-delete-decrements-leafcount",
     "ConnectError then Connect, or a wildcard delete that takes the meta subtree, drove targetLeaves negative"),
]
FIXED += [
    ("D14", ["C06", "C08"], "fix: a notification is offered to a subscriber once even with a single update", "single-entry-notification-double-offer",
     "a subscriber with paths a and a/b was offered a single-update notification for a/b/c twice (reported as coalesced with itself)"),
    ("D17", ["C06"], "fix: ending a subscription unregisters every one of its paths", "multi-path-subscription-stale-after-end",
     "a subscription with two or more paths left all but its last path registered after the RPC ended (aliased prefix slice in addSubscription)"),
]
FIXED += [
    ("D8", ["C19", "C12"], "fix: value.Equal accepts a nil second operand for double values", "equal-nil-double",
     "value.Equal(double_val, nil) dereferenced a nil pointer (b.Value instead of b.GetValue())"),
]
FIXED += [
    ("D18", ["C08"], "fix: a blocked sync_response is subject to the subscribe send timeout", "sync-send-without-timeout",
     "a subscriber that stops reading when the sync_response is due (first response of an updates_only subscription) was never timed out"),
    ("D19", ["C18"], "fix: reconnecting client honours RetryBaseDelay/RetryMaxDelay from the first retry", "first-backoff-ignores-retry-delays",
     "client.Reconnect never reset the backoff after configuring it: with RetryBaseDelay=RetryMaxDelay=2ms, Close right after the first stream failure returned after 500ms"),
]
FIXED += [
    ("D7", ["C12"], "fix: cache handles notifications whose joined path is empty or the bare meta root", "empty-or-meta-alone-path",
     "an update or delete whose prefix+path is empty, an atomic update with an element-less prefix, or the path 'meta' alone made the cache panic (index out of range)"),
    ("D8b", ["C12"], "fix: cache rejects metadata updates that carry no value instead of panicking", "meta-update-without-value",
     "an update for meta/sync, meta/connected, meta/connectedAddress or meta/connectError without a val dereferenced a nil pointer"),
    ("D9", ["C12"], "fix: cache metadata refresh does not assume the type of stored metadata leaves", "meta-leaf-wrong-type",
     "after an accepted update for meta/<counter> carrying another type (or no value, or an atomic container) the next UpdateMetadata/Reset panicked on a type assertion"),
    ("D10", ["C12"], "fix: cli group display accepts an update for the root path", "cli-root-update",
     "a response with an empty update path and no target made the grouped CLI display panic (index out of range in pathmap.add)"),
]
FIXED += [
    ("D1", ["C01"], "fix: gnmi_collector registers its configured targets with the cache", "collector-target-not-in-cache",
     "any configured target: a client subscription through the collector failed with NotFound 'no such target' because the collector never added its targets to the cache"),
    ("D2", ["C01"], "fix: gnmi_cli parses the subscribe request loaded with -proto_file", "cli-proto-file-ignored",
     "gnmi_cli -proto_file f (Subscribe) failed to parse the request although the same text with -proto works"),
]
FIXED += [
    ("D12", ["C15"], "fix: cache synchronises the per-target sync flag between refresh and update stream", "race:cache.(*Target).gnmiUpdate|cache.(*Target).gnmiUpdate",
     "data race on Target.sync between the metadata refresh goroutine (generateMetaUpdates -> gnmiUpdate writes it) and the target's update stream (reads it for every data update)"),
    ("D6", ["C10", "C15"], "fix: ctree delete locks each node it inspects", "race:ctree.(*Leaf).Update|ctree.(*Tree).internalDelete",
     "data race between Leaf.Update through a retained handle and Delete/WalkDeleted reading node values under the root lock only (in the collector: metadata refresh vs the stream deleting meta/connectError)"),
]
FIXED += [
    ("D20", ["C10"], "fix: ctree delete is atomic with respect to updates through retained leaf handles", "conditional-delete-not-atomic-vs-handle-update",
     "DeleteConditional(even) over x=1,y=3,z=5 with handle updates x:=102 then z:=106 landing between its inspections removed z but left x=102: no sequential order explains it"),
]
FIXED += [
    ("D21", ["C18"], "fix: reconnecting client starts no attempt once it is closed or its context is done", "attempt-after-close",
     "Close before Subscribe, then Subscribe over a transport that does not watch its context: one full attempt ran and its whole stream was delivered after Close had returned"),
    ("D22", ["C03"], "fix: delete fan-out keeps prefix elements given in the deprecated string encoding", "oracle",
     "update with prefix element:[a b] (deprecated strings) and path elem:[c], then delete [a]: the leaf a/b/c is removed but the feed announces a delete of [c]"),
    ("D23", ["C04", "C06"], "fix: a streaming subscription without a path field is registered for the prefix itself", "oracle",
     "STREAM subscription {prefix:{target:t0} subscription:{}} (path field unset): snapshot and sync are sent, later updates of t0 are never streamed"),
]
OPEN = [
    dict(id="D15", properties=["C19"], status="open", **{"class": "query-elem-edge-slash"}, part="query",
         what="a client query whose last element ends with '/' loses that element on the way to the server (e.g. [\"/\"] is indexed as []): ygot's string path parser drops the last part of a string ending in '/', even the escaped one pathToString produces; no small safe repair (the string round trip is what parses [k=v] keys)",
         input={"queries": [["/"]]}),
]
try:
    from tools.known_extra import FIXED as F2, OPEN as O2  # optional extension point
    FIXED += F2; OPEN += O2
except Exception:
    pass

findings, lines = [], []
for fid, props, subj, cls, what in FIXED:
    c = commit(subj)
    findings.append(dict(id=fid, properties=props, status="fixed", commit=c, **{"class": cls}, what=what))
    lines.append(f"fixed: property={props[0]} {c} {what}")
for rec in OPEN:
    findings.append(rec)
doc = dict(
    comment=("One record per root cause. status=fixed: repaired by the named unguarded 'fix:' commit in /repo; nothing is suppressed, the failing input is part of the "
             "regression corpus under replays/<id>/. status=open: still present; the engine prints a KNOWN-FINDING line while 'input' still fails and excludes exactly 'class' "
             "from the random search (counted in evidence coverage.excluded_known). Never written at run time."),
    fixed_lines=lines, findings=findings)
json.dump(doc, open(os.path.join(ROOT, "known_findings.json"), "w"), indent=1)
print("known_findings.json:", len(FIXED), "fixed,", len(OPEN), "open")
