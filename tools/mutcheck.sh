#!/bin/sh
# Run checks against a mutated scratch copy of /repo without touching /repo:
#   tools/mutcheck.sh <patch-file|-R:commit> <Cxx> [tier] [more Cxx...]
# A git worktree of /repo HEAD is created under /tmp, the patch applied there
# ("-R:<commit>" reverts that commit instead), /verif is copied next to it with
# the harness's replace directive pointing at the worktree, the check is run,
# and both scratch directories are removed.
set -u
PATCH=$1; shift
ID=$1; shift
TIER=${1:-quick}
TAG=$$
WT=/tmp/mut-wt-$TAG; VC=/tmp/mut-verif-$TAG
git -C /repo worktree add -q --detach $WT HEAD || exit 2
case "$PATCH" in
  -R:*) (cd $WT && git revert -n ${PATCH#-R:} >/dev/null 2>&1) || { echo "revert failed"; git -C /repo worktree remove --force $WT; exit 2; } ;;
  *) (cd $WT && git apply "$PATCH") || { echo "patch does not apply"; git -C /repo worktree remove --force $WT; exit 2; } ;;
esac
(cd $WT && go build ./... ) || { echo "mutant does not compile"; git -C /repo worktree remove --force $WT; exit 2; }
mkdir -p $VC && (cd /verif && tar cf - --exclude=.work --exclude=found --exclude=.git --exclude=evidence . ) | (cd $VC && tar xf -)
sed -i "s#=> /repo#=> $WT#" $VC/harness/go.mod
(cd $VC && VERIF_SEED=${VERIF_SEED:-1} ./check $ID $TIER); RC=$?
echo "mutcheck: $ID $TIER exit=$RC"
if [ -d $VC/found ]; then rm -rf /tmp/mutfound; mkdir -p /tmp/mutfound; cp -r $VC/found/* /tmp/mutfound/; fi
git -C /repo worktree remove --force $WT
rm -rf $VC
exit $RC
