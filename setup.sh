#!/bin/sh
# Offline setup: warm the Go build cache for every engine (plain and -race).
cd "$(dirname "$0")" || exit 2
export GOFLAGS=-mod=mod GOPROXY=off GOSUMDB=off GOTOOLCHAIN=local
command -v go1.26.8 >/dev/null || { echo "go1.26.8 not on PATH"; exit 2; }
exec ./check --build-all
